"""C17: invalid derive input is rejected at compile time, valid input compiles.

The monitored execution is the derive macros (and their const-eval checks) running inside rustc on
generated programs; the observation is rustc's JSON diagnostics. A reference model (this file)
says for each definition whether it is faulty; wording of messages is never matched.
"""
import itertools, os, random, time

PRELUDE = """#![allow(dead_code, unused_imports, non_camel_case_types, clippy::all)]
use parity_scale_codec::{Compact, CompactAs, Decode, Encode};
fn main() {}
"""


class Case:
    def __init__(self, kind, text, faulty, note=""):
        self.kind, self.text, self.faulty, self.note = kind, text, faulty, note
        self.lo = self.hi = 0
        self.errors = []


# ---------------------------------------------------------------------------------------------
# enums: index sources


class V:
    def __init__(self, attr=None, disc=None, skipped=False, fields="", expr=False):
        self.attr, self.disc, self.skipped, self.fields, self.expr = attr, disc, skipped, fields, expr


def rust_discs(vs):
    out, cur = [], -1
    for v in vs:
        cur = v.disc if v.disc is not None else cur + 1
        out.append(cur)
    return out


def rust_valid(vs):
    rd = rust_discs(vs)
    return len(set(rd)) == len(rd)


def indices(vs):
    """index of every non-skipped variant: attribute > discriminant > position among non-skipped"""
    enc = [v for v in vs if not v.skipped]
    out = []
    for i, v in enumerate(enc):
        if v.attr is not None:
            out.append(v.attr)
        elif v.disc is not None:
            out.append(v.disc)
        else:
            out.append(i)
    return out


def enum_faulty(vs):
    idx = indices(vs)
    return len(idx) > 256 or len(set(idx)) != len(idx) or any(i > 255 for i in idx)


def enum_text(name, vs):
    lines = ["#[derive(Encode, Decode)]", f"pub enum {name} {{"]
    for i, v in enumerate(vs):
        a = ""
        if v.skipped:
            a += "#[codec(skip)] "
        if v.attr is not None:
            a += f"#[codec(index = {v.attr})] "
        d = ""
        if v.disc is not None:
            # sometimes as a non-literal expression (a literal above 255 is also caught by rustc's own
            # overflowing-literals lint, which would mask the macro's check)
            d = f" = {v.disc - 1} + 1" if (v.expr and v.disc > 0) else f" = {v.disc}"
        lines.append(f"\t{a}V{i}{v.fields}{d},")
    lines.append("}")
    return "\n".join(lines)


def describe(vs):
    return "[" + ", ".join(("skip " if v.skipped else "") + (f"attr={v.attr} " if v.attr is not None else "") + (f"disc={v.disc}" if v.disc is not None else "") or "pos" for v in vs) + "]"


def random_enum(r, n_hint=None):
    n = n_hint or r.choice([1, 2, 2, 3, 3, 4, 5, 7])
    pool = [0, 1, 2, 3, 4, 5, 6, 254, 255, 256, 257, 300, r.randrange(301), r.randrange(8)]
    for _ in range(100):
        vs = []
        for _i in range(n):
            v = V()
            roll = r.random()
            if roll < 0.3:
                v.attr = r.choice(pool)
            roll = r.random()
            if roll < 0.3:
                v.disc = r.choice(pool)
                v.expr = r.random() < 0.5
            if r.random() < 0.15:
                v.skipped = True
            vs.append(v)
        if rust_valid(vs):
            return vs
    return [V() for _ in range(n)]


def forced_collisions(r):
    """one collision per pair of index sources, at varying positions, each with a repaired twin"""
    out = []
    for k in range(0, 6):
        # attr-attr
        vs = [V() for _ in range(k)] + [V(attr=9), V(attr=9)]
        tw = [V() for _ in range(k)] + [V(attr=9), V(attr=10)]
        out.append(("collision attr-attr", vs, tw))
        # attr-position: a later variant's attribute equals an earlier variant's position
        vs = [V() for _ in range(k + 1)] + [V(attr=k)]
        tw = [V() for _ in range(k + 1)] + [V(attr=k + 50)]
        out.append(("collision attr-position", vs, tw))
        # attr-discriminant
        vs = [V(disc=20 + k), V(attr=20 + k, disc=3)]
        tw = [V(disc=20 + k), V(attr=21 + k, disc=3)]
        out.append(("collision attr-discriminant", vs, tw))
        # discriminant-position: explicit discriminant equals the position of a later variant
        vs = [V(disc=k + 1)] + [V(disc=100 + i) for i in range(k)] + [V(attr=None, disc=None)]
        # the last variant has no attribute / discriminant: its index is its position k+1 ... but rust
        # gives it discriminant 100+k (or k+2): fine for rust, collides for the codec
        tw = [V(disc=k + 60)] + [V(disc=100 + i) for i in range(k)] + [V()]
        if rust_valid(vs) and rust_valid(tw):
            out.append(("collision discriminant-position", vs, tw))
        # collision hidden by a skipped variant (valid!) and exposed without the skip
        vs = [V(attr=5), V(attr=5)] + [V() for _ in range(k)]
        tw = [V(attr=5), V(attr=5, skipped=True)] + [V() for _ in range(k)]
        out.append(("collision removed-by-skip", vs, tw))
        # skipped variants do not take a position: index 1 is free again for an attribute
        vs = [V(), V(), V(attr=1)] + [V() for _ in range(k)]
        tw = [V(), V(skipped=True), V(attr=1)] + [V() for _ in range(k)]
        out.append(("collision position-after-skip", vs, tw))
    for big in (256, 257, 300, 1000, 65536):
        out.append(("index too large (attribute)", [V(), V(attr=big)], [V(), V(attr=255)]))
        out.append(("index too large (discriminant)", [V(), V(disc=big)], [V(), V(disc=255)]))
        out.append(("index too large on a skipped variant is fine", [V(), V(attr=big)], [V(), V(attr=big, skipped=True)]))
        out.append(("index too large (attribute, only variant)", [V(attr=big)], [V(attr=255)]))
        out.append(("index too large (attribute, only encodable variant)", [V(skipped=True), V(attr=big)], [V(skipped=True), V(attr=254)]))
        out.append(("index too large (discriminant expression)", [V(), V(disc=big, expr=True)], [V(), V(disc=255, expr=True)]))
        out.append(("index too large (discriminant expression, only variant)", [V(disc=big, expr=True)], [V(disc=255, expr=True)]))
    return out


def exhaustive_small(max_variants):
    """every assignment of {none, attr in {0,1}, disc in {0,1,2}, skip} to up to max_variants variants"""
    opts = [V(), V(attr=0), V(attr=1), V(disc=0), V(disc=1), V(disc=2), V(skipped=True), V(attr=1, skipped=True), V(attr=0, disc=2)]
    for n in range(1, max_variants + 1):
        for combo in itertools.product(range(len(opts)), repeat=n):
            vs = [V(opts[c].attr, opts[c].disc, opts[c].skipped) for c in combo]
            if rust_valid(vs):
                yield vs


# ---------------------------------------------------------------------------------------------
# finite sets: attribute conflicts, unions, CompactAs shapes, variant count

ATTRS = {"skip": "#[codec(skip)]", "compact": "#[codec(compact)]", "encoded_as": '#[codec(encoded_as = "Compact<u32>")]'}


def conflict_cases():
    out = []
    n = 0
    combos = [("skip", "compact"), ("skip", "encoded_as"), ("compact", "encoded_as"), ("skip", "compact", "encoded_as")]
    inner = {"skip": "skip", "compact": "compact", "encoded_as": 'encoded_as = "Compact<u32>"'}
    variants = []
    for combo in combos:
        variants.append((combo, " ".join(ATTRS[a] for a in combo), "separate attributes"))
        # the same attributes written as ONE list: #[codec(a, b)]
        variants.append((combo, "#[codec(" + ", ".join(inner[a] for a in combo) + ")]", "one list"))
        variants.append((combo, "#[codec(" + ", ".join(inner[a] for a in reversed(combo)) + ")]", "one list, reversed"))
    for combo, bad, how in variants:
        for good_attr in combo[:2]:
            good = ATTRS[good_attr]
            shapes = [
                ("named, two other fields", "pub struct {n} {{ a: u8, {x} b: u32, c: u16 }}"),
                ("named, one other field", "pub struct {n} {{ a: u8, {x} b: u32 }}"),
                ("named, only field", "pub struct {n} {{ {x} b: u32 }}"),
                ("tuple", "pub struct {n}(u8, {x} u32, bool);"),
                ("tuple, only field", "pub struct {n}({x} u32);"),
                ("enum tuple variant", "pub enum {n} {{ A, B(u8, {x} u32) }}"),
                ("enum named variant", "pub enum {n} {{ A {{ {x} v: u32, w: u8 }}, B }}"),
            ]
            for sname, tmpl in shapes:
                n += 1
                f = Case(f"attribute conflict {'+'.join(combo)} ({sname}; {how})", "#[derive(Encode, Decode)]\n" + tmpl.format(n=f"Cf{n}", x=bad), True)
                t = Case(f"single attribute {good_attr} ({sname})", "#[derive(Encode, Decode)]\n" + tmpl.format(n=f"Ct{n}", x=good), False)
                out.append((f, t))
    return out


def shape_cases():
    out = []
    out.append((Case("union", "#[derive(Encode, Decode)]\npub union Un1 { a: u8, b: u8 }", True),
                Case("struct instead of union", "#[derive(Encode, Decode)]\npub struct Un1t { a: u8, b: u8 }", False)))
    out.append((Case("union (Encode only would also be rejected)", "#[derive(Encode, Decode)]\npub union Un2 { a: u32 }", True),
                Case("struct instead of union", "#[derive(Encode, Decode)]\npub struct Un2t { a: u32 }", False)))
    ca = "#[derive(Encode, Decode, CompactAs)]\n"
    out.append((Case("CompactAs on enum", ca + "pub enum Ca1 { A(u32) }", True), Case("CompactAs on newtype", ca + "pub struct Ca1t(u32);", False)))
    out.append((Case("CompactAs on unit struct", ca + "pub struct Ca2;", True), Case("CompactAs on named single field", ca + "pub struct Ca2t { v: u64 }", False)))
    out.append((Case("CompactAs on empty struct", ca + "pub struct Ca3 {}", True), Case("CompactAs with skipped extra field", ca + "pub struct Ca3t { #[codec(skip)] s: u8, v: u16 }", False)))
    out.append((Case("CompactAs on two-field struct", ca + "pub struct Ca4(u32, u32);", True), Case("CompactAs on tuple with skipped field", ca + "pub struct Ca4t(u32, #[codec(skip)] u32);", False)))
    out.append((Case("CompactAs on two named fields", ca + "pub struct Ca5 { a: u8, b: u8 }", True), Case("CompactAs on u128 newtype", ca + "pub struct Ca5t(u128);", False)))
    out.append((Case("CompactAs with all fields skipped", ca + "pub struct Ca6 { #[codec(skip)] a: u8 }", True), Case("CompactAs on u8 newtype", ca + "pub struct Ca6t(u8);", False)))
    out.append((Case("CompactAs on union", ca + "pub union Ca7 { a: u32 }", True), Case("CompactAs newtype", ca + "pub struct Ca7t(u32);", False)))
    # number of encodable variants
    def many(name, n, skipped=0):
        body = "\n".join(f"\t{'#[codec(skip)] ' if i < skipped else ''}V{i}," for i in range(n))
        return f"#[derive(Encode, Decode)]\npub enum {name} {{\n{body}\n}}"
    out.append((Case("257 encodable variants", many("Mv1", 257), True), Case("256 encodable variants", many("Mv1t", 256), False)))
    out.append((Case("300 encodable variants", many("Mv2", 300), True), Case("300 variants, 44 skipped", many("Mv2t", 300, 44), False)))
    out.append((Case("258 variants, 1 skipped", many("Mv3", 258, 1), True), Case("257 variants, 1 skipped", many("Mv3t", 257, 1), False)))
    return out


def wide_cases():
    """fault-free definitions with many fields (nothing in the property limits the number of fields)"""
    out = []
    d = "#[derive(Encode, Decode)]\n"
    for n in (26, 27, 138, 139, 140, 255, 256, 257, 300, 700):
        tys = ", ".join("u8" for _ in range(n))
        out.append(Case(f"tuple variant with {n} fields", d + f"pub enum Wt{n} {{ A({tys}), B }}", False))
    mixed = ", ".join(("#[codec(compact)] u32" if i % 7 == 3 else "#[codec(skip)] u16" if i % 11 == 5 else "u8") for i in range(300))
    out.append(Case("tuple variant with 300 fields, some compact / skipped", d + f"pub enum Wm300 {{ #[codec(index = 9)] A({mixed}) }}", False))
    named = ", ".join(f"f{i}: u8" for i in range(300))
    out.append(Case("named variant with 300 fields", d + f"pub enum Wn300 {{ A {{ {named} }} }}", False))
    out.append(Case("named struct with 300 fields", d + f"pub struct Ws300 {{ {named} }}", False))
    out.append(Case("tuple struct with 300 fields", d + "pub struct Wu300(" + ", ".join("u8" for _ in range(300)) + ");", False))
    return out


# ---------------------------------------------------------------------------------------------
# crate assembly and judgement


def assemble(cases):
    parts = [PRELUDE]
    for k, c in enumerate(cases):
        parts.append(f"mod m{k} {{ use super::*;")
        parts.append(c.text)
        parts.append("}")
    src = "\n".join(parts) + "\n"
    # line ranges (1-based, inclusive) are computed from the assembled text itself
    pos = 0
    for k, c in enumerate(cases):
        i = src.index(f"mod m{k} {{ use super::*;\n", pos)
        j = i + len(f"mod m{k} {{ use super::*;\n")
        c.lo = src.count("\n", 0, j) + 1
        c.hi = c.lo + c.text.count("\n")
        pos = j
    return src


def judge_crate(pid, name, cases, total, chk, dr, stage, expect_clean=False):
    """compile one crate of cases, attribute errors, record verdicts; returns cases needing a solo re-check"""
    src = assemble(cases)
    d = dr.write_crate(chk, name, src)
    t0 = time.time()
    rc, diags, err = dr.cargo(chk, d, "check")
    chk.log(f"{pid} {stage}: checked {name} ({len(cases)} definitions, {len(diags)} errors) in {time.time()-t0:.0f}s")
    ranges = {k: (c.lo, c.hi) for k, c in enumerate(cases)}
    hit, un = dr.attribute(diags, ranges, name)
    if rc != 0 and not diags:
        total["inconclusive"].append(f"{stage}: cargo check of {name} failed without diagnostics: {err[-400:]}")
        return []
    suspects = []
    for k, c in enumerate(cases):
        c.errors = hit[k]
        if c.faulty != bool(c.errors):
            suspects.append(c)
    if expect_clean and rc != 0 and not any(hit.values()):
        total["inconclusive"].append(f"{stage}: crate of valid definitions does not build, no definition implicated: {(un or [err])[0][:400]}")
    return suspects


def solo(pid, c, total, chk, dr, n):
    name = f"c17_solo_{n}"
    src = assemble([c])
    d = dr.write_crate(chk, name, src)
    rc, diags, err = dr.cargo(chk, d, "check")
    hit, un = dr.attribute(diags, {0: (c.lo, c.hi)}, name)
    return rc, hit[0], un, err


def run(pid, tier, seed, total, chk, dr):
    r = random.Random(seed * 7919 + 17)
    quick = tier == "quick"
    n_random = 400 if quick else 15000
    # ---- batch 1: const-eval class (index collisions / indices above 255), faulty and valid mixed
    cases = []
    n = 0
    for kind, vs, tw in forced_collisions(r):
        n += 1
        for which, x in (("", vs), ("t", tw)):
            if not rust_valid(x):
                continue
            cases.append(Case(kind + (" (twin)" if which else ""), enum_text(f"Fc{n}{which}", x), enum_faulty(x), describe(x)))
    for i in range(n_random):
        vs = random_enum(r)
        if r.random() < 0.3:
            # give some variants fields: index handling must not depend on the shape
            for v in vs:
                if v.disc is None and r.random() < 0.5:
                    v.fields = r.choice(["(u8)", " { a: u16 }", "(u8, #[codec(compact)] u32)"])
            if any(v.fields for v in vs) and any(v.disc is not None for v in vs):
                for v in vs:
                    v.fields = ""
        cases.append(Case("random enum", enum_text(f"Re{i}", vs), enum_faulty(vs), describe(vs)))
    if not quick:
        for i, vs in enumerate(exhaustive_small(4)):
            cases.append(Case("exhaustive small enum", enum_text(f"Ex{i}", vs), enum_faulty(vs), describe(vs)))
        total.setdefault("extra", {})["exhaustive_subspaces"] = "all assignments of 9 index-source options to enums of up to 4 variants (thorough)"
    suspects = []
    batch = 600
    for b in range(0, len(cases), batch):
        part = cases[b:b + batch]
        faulty_part = [c for c in part if c.faulty]
        valid_part = [c for c in part if not c.faulty]
        # valid ones together must compile cleanly; faulty ones together must each be blamed
        suspects += judge_crate(pid, f"c17_ce_valid_{b // batch}", valid_part, total, chk, dr, "consteval-valid", expect_clean=True)
        suspects += judge_crate(pid, f"c17_ce_faulty_{b // batch}", faulty_part, total, chk, dr, "consteval-faulty")
    # ---- batch 2: expansion class (attribute conflicts, unions, CompactAs shapes, variant count) and twins
    pairs = conflict_cases() + shape_cases()
    faulty = [f for f, _ in pairs]
    twins = [t for _, t in pairs] + wide_cases()
    suspects += judge_crate(pid, "c17_exp_faulty", faulty, total, chk, dr, "expansion-faulty")
    suspects += judge_crate(pid, "c17_exp_twins", twins, total, chk, dr, "expansion-twins", expect_clean=True)
    all_cases = cases + faulty + twins
    # ---- verdicts; every suspect is first compiled alone
    nsolo = 0
    for c in suspects:
        nsolo += 1
        if nsolo > 40:
            total["inconclusive"].append("more than 40 suspects; remaining ones not re-checked")
            break
        rc, errs, un, err = solo(pid, c, total, chk, dr, nsolo)
        if c.faulty and rc == 0:
            total["violations"].append(dict(sig=f"invalid-derive-accepted:{c.kind.split(' (')[0]}",
                                            msg=f"faulty definition ({c.kind}; {c.note}) compiles without any diagnostic:\n{c.text[:1500]}",
                                            replay=dict(property=pid, kind=c.kind, definition=c.text, note=c.note), runtime="rustc"))
            total["violations_total"] += 1
        elif (not c.faulty) and rc != 0 and errs:
            total["violations"].append(dict(sig=f"valid-derive-rejected:{c.kind.split(' (')[0]}",
                                            msg=f"fault-free definition ({c.kind}; {c.note}) is rejected: {errs[0][:300]}\n{c.text[:1500]}",
                                            replay=dict(property=pid, kind=c.kind, definition=c.text, errors=errs[:3]), runtime="rustc"))
            total["violations_total"] += 1
        elif (not c.faulty) and rc != 0:
            total["inconclusive"].append(f"solo build of a valid definition failed without an attributed error: {(un or [err])[0][:300]}")
        # otherwise: the batch attribution was off (rustc did not co-report); solo result agrees with the model
        else:
            total["counters"]["batch_attribution_corrected_by_solo_build"] = total["counters"].get("batch_attribution_corrected_by_solo_build", 0) + 1
    # ---- evidence
    cnt = total["counters"]
    cnt["definitions"] = len(all_cases)
    cnt["faulty_definitions"] = sum(1 for c in all_cases if c.faulty)
    cnt["valid_definitions"] = sum(1 for c in all_cases if not c.faulty)
    cnt["faulty_rejected_with_attributed_error"] = sum(1 for c in all_cases if c.faulty and c.errors)
    cnt["valid_compiled_clean"] = sum(1 for c in all_cases if not c.faulty and not c.errors)
    for c in all_cases:
        k = "kind:" + c.kind.split(" (")[0]
        cnt[k] = cnt.get(k, 0) + 1
    total["evaluations"] += len(all_cases)
    # non-trivial: definitions with at least one attribute or at least two variants; distinct by text
    total["distinct_nontrivial"] += len({c.text.split("\n", 1)[1] if "\n" in c.text else c.text for c in all_cases if ("#[codec" in c.text or c.text.count("\tV") >= 2)})
    seen_kinds = set()
    for c in all_cases:
        k = c.kind.split(" (")[0]
        if k in seen_kinds or len(total["samples"]) >= 12:
            continue
        seen_kinds.add(k)
        total["samples"].append(dict(kind=c.kind, model_says="faulty" if c.faulty else "valid", definition=c.text[:600], rustc_errors_attributed=len(c.errors),
                                     first_error=(c.errors[0][:160] if c.errors else None)))
    total.setdefault("extra", {})["programs"] = len(all_cases)

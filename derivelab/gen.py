#!/usr/bin/env python3
"""Program generator for the derive properties (C05, C13, C17).

Emits Rust type definitions over the derive attribute grammar together with, for each definition,
its schema (a `Modelled` impl: model type, value conversions) computed from THIS generator's AST of
the definition - never from the macros. Index rule: #[codec(index)] > explicit discriminant >
position among the non-skipped variants.
"""
import random

# ---------------------------------------------------------------------------------------------
# leaf field types: rust text, has MaxEncodedLen, has Default, compact bits (unsigned ints), zero-sized


class Leaf:
    def __init__(self, rust, mel, default, bits=None, zst=False):
        self.rust, self.mel, self.default, self.bits, self.zst = rust, mel, default, bits, zst


LEAVES = [
    Leaf("u8", True, True, 8), Leaf("u16", True, True, 16), Leaf("u32", True, True, 32), Leaf("u64", True, True, 64),
    Leaf("u128", True, True, 128), Leaf("i8", True, True), Leaf("i16", True, True), Leaf("i32", True, True), Leaf("i64", True, True),
    Leaf("bool", True, True), Leaf("String", False, True), Leaf("Vec<u8>", False, True), Leaf("Vec<u16>", False, True),
    Leaf("Option<u32>", True, True), Leaf("(u8, u16)", True, True), Leaf("[u8; 4]", True, True), Leaf("Compact<u32>", True, False),
    Leaf("Box<u32>", True, True), Leaf("BTreeMap<u8, u16>", False, True), Leaf("()", True, True, zst=True),
    Leaf("PhantomData<u8>", True, True, zst=True), Leaf("Option<bool>", True, True), Leaf("Vec<String>", False, True),
    Leaf("OptionBool", False, False), Leaf("Result<u8, bool>", True, False), Leaf("Duration", True, True),
    Leaf("Vec<Option<u16>>", False, True), Leaf("Option<Box<u64>>", True, True),
]
UINTS = [l for l in LEAVES if l.bits]


class Field:
    def __init__(self, name, ty, mode="plain", as_ty=None, generic=False):
        # ty: Leaf-like (rust, mel, default, bits); mode: plain | skip | compact | encoded_as
        self.name, self.ty, self.mode, self.as_ty, self.generic = name, ty, mode, as_ty, generic


class Variant:
    def __init__(self, name, shape, fields, index_attr=None, disc=None, skipped=False, disc_expr=None):
        self.name, self.shape, self.fields = name, shape, fields
        self.index_attr, self.disc, self.skipped, self.disc_expr = index_attr, disc, skipped, disc_expr


class Def:
    def __init__(self, name, kind, shape=None, fields=None, variants=None, generics=None, transparent=False, repr_u8=False,
                 compact_as=False, extra_attrs=None, insts=None, lifetime=False):
        self.name, self.kind, self.shape = name, kind, shape
        self.fields = fields or []
        self.variants = variants or []
        self.generics = generics or []  # list of (name, bound or None, skip_bound: bool)
        self.transparent, self.repr_u8, self.compact_as = transparent, repr_u8, compact_as
        self.extra_attrs = extra_attrs or []
        self.insts = insts  # list of lists of rust types for the generic parameters
        self.lifetime = lifetime

    # -- derived facts -------------------------------------------------------------------
    def all_fields(self):
        if self.kind == "struct":
            return list(self.fields)
        out = []
        for v in self.variants:
            if not v.skipped:
                out.extend(v.fields)
        return out

    def has_mel(self):
        if self.lifetime:
            return False
        for f in self.all_fields():
            if f.mode == "skip":
                continue
            if f.generic:
                continue
            if not f.ty.mel:
                return False
        return True

    def has_default(self):
        if self.kind != "struct" or self.generics or self.lifetime:
            return False
        return all(f.ty.default for f in self.fields)

    def is_zst(self):
        return self.kind == "struct" and all(f.ty.zst for f in self.fields)

    def encodable_variants(self):
        return [v for v in self.variants if not v.skipped]

    def variant_index(self, v):
        """attribute > discriminant > position among non-skipped variants"""
        if v.index_attr is not None:
            return v.index_attr
        if v.disc is not None:
            return v.disc
        return self.encodable_variants().index(v)


def wire_expr(f):
    """Rust expression for the FieldTy of a field, from the definition text."""
    ty = f"<{f.ty.rust} as Modelled>::ty()"
    if f.mode == "skip":
        return f"FieldTy::skip({ty})"
    if f.mode == "compact":
        if f.generic or f.ty.bits is None:
            return f"FieldTy::as_({ty}, monitor::suite::compact_of(&{ty}))"
        return f"FieldTy::as_({ty}, Ty::Compact {{ bits: {f.ty.bits} }})"
    if f.mode == "encoded_as":
        return f"FieldTy::as_({ty}, <{f.as_ty} as Modelled>::ty())"
    return f"FieldTy::plain({ty})"


def field_attr(f):
    if f.mode == "skip":
        return "#[codec(skip)] "
    if f.mode == "compact":
        return "#[codec(compact)] "
    if f.mode == "encoded_as":
        return f'#[codec(encoded_as = "{f.as_ty}")] '
    return ""


def fields_decl(shape, fields, vis="pub "):
    if shape == "unit":
        return ""
    if shape == "named":
        return " { " + ", ".join(f"{field_attr(f)}{vis}{f.name}: {f.ty.rust}" for f in fields) + " }"
    return "(" + ", ".join(f"{field_attr(f)}{vis}{f.ty.rust}" for f in fields) + ")"


def generics_decl(d, with_bounds=True):
    parts = []
    if d.lifetime:
        parts.append("'a")
    for (n, bound, _skip) in d.generics:
        parts.append(f"{n}: {bound}" if (bound and with_bounds) else n)
    return "<" + ", ".join(parts) + ">" if parts else ""


def derives(d, want_mel, codec=True):
    ds = []
    if codec:
        ds += ["Encode", "Decode"] + ([] if d.lifetime else ["DecodeWithMemTracking"])
    if d.compact_as:
        ds.append("CompactAs")
    if want_mel and d.has_mel() and not d.compact_as:
        ds.append("MaxEncodedLen")
    if d.has_default():
        ds.append("Default")
    return ds


def emit_def(d, want_mel=True):
    """Rust text of the definition (derive input)."""
    lines = []
    lines.append(f"#[derive({', '.join(derives(d, want_mel))})]")
    for a in d.extra_attrs:
        lines.append(a)
    if d.transparent:
        lines.append("#[repr(transparent)]")
    if d.repr_u8:
        lines.append("#[repr(u8)]")
    g = generics_decl(d)
    if d.kind == "struct":
        semi = ";" if d.shape in ("unit", "tuple") else ""
        lines.append(f"pub struct {d.name}{g}{fields_decl(d.shape, d.fields)}{semi}")
    else:
        lines.append(f"pub enum {d.name}{g} {{")
        for v in d.variants:
            attrs = ""
            if v.skipped:
                attrs += "#[codec(skip)] "
            if v.index_attr is not None:
                attrs += f"#[codec(index = {v.index_attr})] "
            disc = ""
            if v.disc is not None:
                disc = f" = {v.disc_expr or v.disc}"
            lines.append(f"\t{attrs}{v.name}{fields_decl(v.shape, v.fields, vis='')}{disc},")
        lines.append("}")
    return "\n".join(lines)


def emit_modelled(d):
    """`impl Modelled` computed from the definition's AST."""
    g_decl_parts = []
    if d.lifetime:
        pass
    for (n, bound, skip) in d.generics:
        if skip:
            g_decl_parts.append(n)
        else:
            b = "Modelled" + (f" + {bound}" if bound else "")
            g_decl_parts.append(f"{n}: {b}")
    impl_g = "<" + ", ".join(g_decl_parts) + ">" if g_decl_parts else ""
    use_parts = (["'static"] if d.lifetime else []) + [n for (n, _, _) in d.generics]
    use_g = "<" + ", ".join(use_parts) + ">" if use_parts else ""
    out = [f"impl{impl_g} Modelled for {d.name}{use_g} {{"]
    if d.compact_as:
        # a CompactAs newtype is, for the model, the integer it wraps
        inner = [f for f in d.fields if f.mode != "skip"][0]
        acc = inner.name if d.shape == "named" else str(d.fields.index(inner))
        out.append(f"\tfn ty() -> Ty {{ <{inner.ty.rust} as Modelled>::ty() }}")
        out.append(f"\tfn to_val(&self) -> Val {{ self.{acc}.to_val() }}")
        ctor = []
        for f in d.fields:
            val = "Default::default()" if f.mode == "skip" else f"<{f.ty.rust}>::from_val(v)"
            ctor.append(f"{f.name}: {val}" if d.shape == "named" else val)
        body = f"{d.name} {{ {', '.join(ctor)} }}" if d.shape == "named" else f"{d.name}({', '.join(ctor)})"
        out.append(f"\tfn from_val(v: &Val) -> Self {{ {body} }}")
        out.append("}")
        # Compact<W> is the compact integer of the wrapped width
        out.append(f"impl monitor::bridge::CompactModel for {d.name} {{")
        out.append(f"\tfn bits() -> u8 {{ {inner.ty.bits} }}")
        out.append(f"\tfn to_u128(&self) -> u128 {{ self.{acc} as u128 }}")
        ctor = []
        for f in d.fields:
            val = "Default::default()" if f.mode == "skip" else f"x as {f.ty.rust}"
            ctor.append(f"{f.name}: {val}" if d.shape == "named" else val)
        body = f"{d.name} {{ {', '.join(ctor)} }}" if d.shape == "named" else f"{d.name}({', '.join(ctor)})"
        out.append(f"\tfn from_u128(x: u128) -> Self {{ {body} }}")
        out.append("}")
        return "\n".join(out)

    def fields_ty(fields):
        return "vec![" + ", ".join(wire_expr(f) for f in fields) + "]"

    def acc(shape, i, f):
        return f.name if shape == "named" else str(i)

    if d.kind == "struct":
        out.append(f'\tfn ty() -> Ty {{ Ty::Struct {{ name: "{d.name}".into(), fields: {fields_ty(d.fields)} }} }}')
        vals = ", ".join(f"self.{acc(d.shape, i, f)}.to_val()" for i, f in enumerate(d.fields))
        out.append(f"\tfn to_val(&self) -> Val {{ Val::Tuple(vec![{vals}]) }}")
        ctor = []
        for i, f in enumerate(d.fields):
            val = "Default::default()" if f.mode == "skip" else f"<{f.ty.rust}>::from_val(&x[{i}])"
            ctor.append(f"{f.name}: {val}" if d.shape == "named" else val)
        if d.shape == "unit":
            body = d.name
        elif d.shape == "named":
            body = f"{d.name} {{ {', '.join(ctor)} }}"
        else:
            body = f"{d.name}({', '.join(ctor)})"
        out.append("\tfn from_val(v: &Val) -> Self {")
        out.append('\t\tlet x = match v { Val::Tuple(x) => x, _ => panic!("struct value expected") };')
        out.append("\t\tlet _ = x;")
        out.append(f"\t\t{body}")
        out.append("\t}")
    else:
        vs = []
        for v in d.variants:
            idx = 0 if v.skipped else d.variant_index(v)
            vs.append(f'VariantTy {{ name: "{v.name}".into(), index: {idx}, skipped: {"true" if v.skipped else "false"}, fields: {fields_ty(v.fields)} }}')
        out.append(f'\tfn ty() -> Ty {{ Ty::Enum {{ name: "{d.name}".into(), variants: vec![{", ".join(vs)}] }} }}')
        out.append("\tfn to_val(&self) -> Val {")
        if not d.variants:
            out.append("\t\tmatch *self {}")
        else:
            out.append("\t\tmatch self {")
            for k, v in enumerate(d.variants):
                names = [f"f{i}" for i in range(len(v.fields))]
                if v.shape == "unit":
                    pat = f"{d.name}::{v.name}"
                elif v.shape == "named":
                    pat = f"{d.name}::{v.name} {{ " + ", ".join(f"{f.name}: {n}" for f, n in zip(v.fields, names)) + " }"
                else:
                    pat = f"{d.name}::{v.name}(" + ", ".join(names) + ")"
                vals = ", ".join(f"{n}.to_val()" for n in names)
                out.append(f"\t\t\t{pat} => Val::Variant({k}, vec![{vals}]),")
            out.append("\t\t}")
        out.append("\t}")
        out.append("\tfn from_val(v: &Val) -> Self {")
        out.append("\t\tmatch v {")
        for k, v in enumerate(d.variants):
            ctor = []
            for i, f in enumerate(v.fields):
                val = "Default::default()" if f.mode == "skip" else f"<{f.ty.rust}>::from_val(&x[{i}])"
                ctor.append(f"{f.name}: {val}" if v.shape == "named" else val)
            if v.shape == "unit":
                body = f"{d.name}::{v.name}"
            elif v.shape == "named":
                body = f"{d.name}::{v.name} {{ {', '.join(ctor)} }}"
            else:
                body = f"{d.name}::{v.name}({', '.join(ctor)})"
            out.append(f"\t\t\tVal::Variant({k}, x) => {{ let _ = x; {body} }},")
        out.append(f'\t\t\t_ => panic!("no such variant of {d.name}: {{:?}}", v),')
        out.append("\t\t}")
        out.append("\t}")
    out.append("}")
    text = "\n".join(out)
    return text.replace("'a", "'static") if d.lifetime else text


# ---------------------------------------------------------------------------------------------
# random valid definitions


class Gen:
    def __init__(self, seed):
        self.r = random.Random(seed)
        self.n = 0
        self.defs = []
        self.nested = []  # Leaf-like views of earlier non-generic definitions usable as field types

    def fresh(self, prefix):
        self.n += 1
        return f"{prefix}{self.n}"

    def field_type(self, allow_nested=True):
        r = self.r
        if allow_nested and self.nested and r.random() < 0.2:
            return r.choice(self.nested)
        return r.choice(LEAVES)

    def field(self, i, shape, allow_attr=True):
        r = self.r
        name = f"f{i}" if shape == "named" else None
        roll = r.random()
        if allow_attr and roll < 0.18:
            t = r.choice(UINTS)
            return Field(name, t, "compact")
        if allow_attr and roll < 0.30:
            t = r.choice(UINTS)
            return Field(name, t, "encoded_as", as_ty=f"Compact<{t.rust}>")
        t = self.field_type()
        if allow_attr and roll < 0.45 and t.default:
            return Field(name, t, "skip")
        return Field(name, t)

    def fields(self, shape, nmax=5, exact=None):
        if shape == "unit":
            return []
        n = self.r.choice([0, 1, 1, 2, 2, 3, 4, nmax]) if shape != "unit" else 0
        if exact is not None:
            n = exact
        return [self.field(i, shape) for i in range(n)]

    def register(self, d):
        self.defs.append(d)
        if not d.generics and not d.lifetime and d.kind in ("struct", "enum") and not d.compact_as:
            if d.kind == "enum" and not d.encodable_variants():
                return d
            self.nested.append(Leaf(d.name, d.has_mel(), d.has_default(), zst=d.is_zst()))
        return d

    def struct(self):
        shape = self.r.choice(["named", "named", "tuple", "tuple", "unit"])
        return self.register(Def(self.fresh("S"), "struct", shape, self.fields(shape)))

    def single_field_struct(self):
        """exactly one non-skipped field (the derive's forwarding path), any attribute on it"""
        shape = self.r.choice(["named", "tuple"])
        fs = []
        n = self.r.choice([1, 2, 3])
        keep = self.r.randrange(n)
        for i in range(n):
            if i == keep:
                f = self.field(i, shape)
                while f.mode == "skip":
                    f = self.field(i, shape)
                fs.append(f)
            else:
                t = self.r.choice([l for l in LEAVES if l.default])
                fs.append(Field(f"f{i}" if shape == "named" else None, t, "skip"))
        return self.register(Def(self.fresh("One"), "struct", shape, fs))

    def transparent(self):
        shape = self.r.choice(["named", "tuple"])
        main = self.r.choice([l for l in LEAVES if not l.zst] + [n for n in self.nested if not n.zst])
        mode = self.r.choice(["plain", "plain", "plain", "compact", "encoded_as"])
        if self.r.random() < 0.15:
            # a transparent struct made of zero-sized fields only
            main, mode = self.r.choice([l for l in LEAVES if l.zst]), "plain"
        if mode != "plain":
            main = self.r.choice(UINTS)
        fs = [Field(None, main, mode, as_ty=f"Compact<{main.rust}>" if mode == "encoded_as" else None)]
        for _ in range(self.r.choice([0, 0, 1, 2])):
            z = self.r.choice([l for l in LEAVES if l.zst])
            fs.insert(self.r.randrange(len(fs) + 1), Field(None, z, self.r.choice(["plain", "plain", "skip"])))
        for i, f in enumerate(fs):
            f.name = f"f{i}" if shape == "named" else None
        return self.register(Def(self.fresh("Tr"), "struct", shape, fs, transparent=True))

    def enum(self, force=None):
        r = self.r
        nv = r.choice([1, 2, 3, 4, 6, 9])
        fieldless = r.random() < 0.35
        repr_u8 = (not fieldless) and r.random() < 0.25
        variants = []
        for i in range(nv):
            shape = "unit" if fieldless else r.choice(["unit", "tuple", "named"])
            # now and then a very wide variant: the number of fields is not limited by anything
            wide = r.choice([139, 150, 260]) if shape != "unit" and r.random() < 0.04 else None
            variants.append(Variant(f"V{i}", shape, self.fields(shape, 3, exact=wide)))
        # twin variants: the same field types as an earlier variant, in another representation
        # (plain <-> compact / encoded_as, or with one field skipped)
        if not fieldless and r.random() < 0.35:
            src = r.choice(variants)
            if src.fields and len(src.fields) < 100:
                twin = []
                for f in src.fields:
                    g = Field(f.name, f.ty, f.mode, f.as_ty, f.generic)
                    if f.ty.bits and r.random() < 0.7:
                        g.mode = r.choice([m for m in ("plain", "compact", "encoded_as") if m != f.mode])
                        g.as_ty = f"Compact<{f.ty.rust}>" if g.mode == "encoded_as" else None
                    elif f.mode == "plain" and f.ty.default and r.random() < 0.3:
                        g.mode = "skip"
                    elif f.mode == "skip" and r.random() < 0.5:
                        g.mode = "plain"
                    twin.append(g)
                variants.insert(r.randrange(len(variants) + 1), Variant(f"V{len(variants)}", src.shape, twin))
        # now and then nothing but a pair of twins, the longer representation second
        if not fieldless and r.random() < 0.12:
            t = r.choice(UINTS)
            shape = r.choice(["tuple", "named"])
            nm = "f0" if shape == "named" else None
            longer = r.choice(["compact", "encoded_as"])
            variants = [Variant("V0", shape, [Field(nm, t)]),
                        Variant("V1", shape, [Field(nm, t, longer, as_ty=f"Compact<{t.rust}>" if longer == "encoded_as" else None)])]
        mode = force or r.choice(["position", "attr", "disc", "mixed", "mixed", "skipmix"])
        d = Def(self.fresh("E"), "enum", variants=variants, repr_u8=repr_u8)
        # skipped variants
        if mode in ("skipmix", "mixed"):
            for v in variants:
                if r.random() < 0.3:
                    v.skipped = True
        if mode == "allskipped":
            for v in variants:
                v.skipped = True
        can_disc = fieldless or repr_u8
        # assign index sources, then repair until valid (distinct, <= 255, rust discriminants distinct)
        for _ in range(200):
            for v in variants:
                v.index_attr = v.disc = v.disc_expr = None
                if mode in ("attr", "mixed", "skipmix") and r.random() < (0.9 if mode == "attr" else 0.4):
                    v.index_attr = r.choice([0, 1, 2, 3, 7, 42, 127, 128, 200, 254, 255, r.randrange(256)])
                if can_disc and mode in ("disc", "mixed") and r.random() < (0.9 if mode == "disc" else 0.4):
                    v.disc = r.choice([0, 1, 2, 5, 9, 10, 77, 200, 255, r.randrange(256)])
                    if r.random() < 0.15 and v.disc >= 2 and v.disc % 2 == 0:
                        v.disc_expr = f"2 * {v.disc // 2}"
            if self.valid_enum(d):
                break
        else:
            for v in variants:
                v.index_attr = v.disc = None
        return self.register(d)

    @staticmethod
    def rust_discriminants(d):
        out, cur = [], -1
        for v in d.variants:
            cur = v.disc if v.disc is not None else cur + 1
            out.append(cur)
        return out

    def valid_enum(self, d):
        rd = self.rust_discriminants(d)
        if len(set(rd)) != len(rd):
            return False
        if d.repr_u8 and max(rd + [0]) > 255:
            return False
        idx = [d.variant_index(v) for v in d.encodable_variants()]
        return len(set(idx)) == len(idx) and all(0 <= i <= 255 for i in idx) and len(idx) <= 256

    def generic_struct(self):
        r = self.r
        kind = r.choice(["plain", "two", "hascompact", "skipparam"])
        if kind == "plain":
            T = Leaf("T", False, False)
            fs = [Field("a", T, generic=True), Field("b", Leaf("Vec<T>", False, False), generic=True), self.field(2, "named")]
            fs[2].name = "c"
            d = Def(self.fresh("G"), "struct", "named", fs, generics=[("T", None, False)], insts=[["u16"], ["String"], ["(u8, bool)"]])
        elif kind == "two":
            fs = [Field(None, Leaf("T", False, False), generic=True), Field(None, Leaf("Option<U>", False, False), generic=True), Field(None, Leaf("u8", True, True, 8), "compact")]
            d = Def(self.fresh("G"), "struct", "tuple", fs, generics=[("T", None, False), ("U", None, False)], insts=[["u8", "Vec<u8>"], ["String", "u64"]])
        elif kind == "hascompact":
            fs = [Field("a", Leaf("T", False, False), "compact", generic=True), Field("b", Leaf("T", False, False), generic=True), self.field(2, "named")]
            fs[2].name = "c"
            d = Def(self.fresh("G"), "struct", "named", fs, generics=[("T", "HasCompact", False)], insts=[["u8"], ["u32"], ["u128"]])
        else:
            fs = [Field("a", Leaf("T", False, False), generic=True), Field("m", Leaf("PhantomData<N>", True, True, zst=True), generic=True)]
            attrs = [f"#[codec({b}(skip_type_params(N)))]" for b in ("encode_bound", "decode_bound", "decode_with_mem_tracking_bound")]
            d = Def(self.fresh("G"), "struct", "named", fs, generics=[("T", None, False), ("N", None, True)], extra_attrs=attrs, insts=[["u32", "NoCodec"], ["Vec<u8>", "NoCodec"]])
        return self.register(d)

    def generic_enum(self):
        vs = [Variant("A", "unit", []), Variant("B", "tuple", [Field(None, Leaf("T", False, False), generic=True)]),
              Variant("C", "named", [Field("x", Leaf("Vec<T>", False, False), generic=True), Field("y", Leaf("u16", True, True, 16), "compact")], index_attr=self.r.choice([None, 9, 255]))]
        if self.r.random() < 0.5:
            vs.insert(1, Variant("Gone", "tuple", [Field(None, Leaf("T", False, False), generic=True)], skipped=True))
        return self.register(Def(self.fresh("GE"), "enum", variants=vs, generics=[("T", None, False)], insts=[["u8"], ["String"]]))

    def compact_as(self):
        r = self.r
        shape = r.choice(["tuple", "named"])
        inner = r.choice(UINTS)
        fs = [Field(None, inner)]
        for _ in range(r.choice([0, 0, 1])):
            fs.insert(r.randrange(len(fs) + 1), Field(None, r.choice([l for l in LEAVES if l.default]), "skip"))
        for i, f in enumerate(fs):
            f.name = f"f{i}" if shape == "named" else None
        w = self.register(Def(self.fresh("W"), "struct", shape, fs, compact_as=True))
        # a user of the newtype in compact position
        wl = Leaf(w.name, False, False, bits=inner.bits)
        user = Def(self.fresh("UW"), "struct", "named", [Field("a", Leaf("u8", True, True, 8)), Field("w", wl, "compact"), Field("z", Leaf("bool", True, True))])
        self.register(user)
        return w

    def lifetime_struct(self):
        fs = [Field("c", Leaf("Cow<'a, str>", False, True)), Field("n", Leaf("u32", True, True, 32), "compact")]
        return self.register(Def(self.fresh("L"), "struct", "named", fs, lifetime=True))

    def program(self, n):
        makers = [(self.struct, 6), (self.single_field_struct, 3), (self.transparent, 3), (self.enum, 8), (self.generic_struct, 2),
                  (self.generic_enum, 1), (self.compact_as, 1), (self.lifetime_struct, 0.3)]
        total = sum(w for _, w in makers)
        # guaranteed special cases first
        self.enum(force="allskipped")
        self.register(Def(self.fresh("E"), "enum", variants=[]))
        e = Def(self.fresh("E"), "enum", variants=[Variant(f"V{i}", "unit", [], index_attr=255 - i if i % 2 == 0 else None, disc=None) for i in range(5)])
        if self.valid_enum(e):
            self.register(e)
        self.compact_as()
        self.lifetime_struct()
        while len(self.defs) < n:
            x = self.r.random() * total
            for m, w in makers:
                if x < w:
                    m()
                    break
                x -= w
        return self.defs


# ---------------------------------------------------------------------------------------------
# crate emission

PRELUDE = """#![allow(dead_code, unused_imports, non_camel_case_types, clippy::all)]
use monitor::bridge::Modelled;
use monitor::model::{FieldTy, Ty, Val, VariantTy};
use monitor::ops::TypeOps;
use parity_scale_codec::{Compact, CompactAs, Decode, DecodeWithMemTracking, Encode, HasCompact, MaxEncodedLen, OptionBool};
use std::borrow::Cow;
use std::collections::BTreeMap;
use std::marker::PhantomData;
use std::time::Duration;

#[global_allocator]
static GLOBAL: monitor::alloc::CountingAlloc = monitor::alloc::CountingAlloc;

/// a type that implements none of the codec traits (for skip_type_params)
pub struct NoCodec;
"""


def inst_names(d):
    if d.generics:
        return [f"{d.name}<{', '.join(i)}>" for i in d.insts]
    if d.lifetime:
        return [f"{d.name}<'static>"]
    return [d.name]


def emit_suite_crate(defs, want_mel=True):
    src = [PRELUDE]
    types, texts = [], []
    for d in defs:
        text = emit_def(d, want_mel)
        src.append(text)
        src.append(emit_modelled(d))
        src.append("")
        for inst in inst_names(d):
            types.append(inst)
            texts.append(text)
            if d.compact_as:
                types.append(f"Compact<{inst}>")
                texts.append(text + "  // as Compact<..>")
    src.append("fn main() {")
    src.append("\tlet args = monitor::suite::parse_args();")
    src.append("\tlet mut types: Vec<TypeOps> = Vec::new();")
    src.append("\tlet mut defs: Vec<&'static str> = Vec::new();")
    for t, text in zip(types, texts):
        src.append(f"\ttypes.push(monitor::probe_ops!({t}));")
        src.append(f"\tdefs.push({rust_str(text)});")
    src.append("\tmonitor::suite::run_derive_suite(&types, &defs, &args);")
    src.append("}")
    return "\n".join(src), len(types)


def rust_str(s):
    return 'r####"' + s + '"####'


CARGO = """[package]
name = "{name}"
version = "0.0.0"
edition = "2021"
publish = false

[workspace]

[dependencies]
monitor = {{ path = "{monitor}" }}
parity-scale-codec = {{ path = "{repo}", features = ["derive", "bit-vec", "bytes", "generic-array", "max-encoded-len"] }}

[profile.dev]
opt-level = 1
debug = 0
incremental = false

[lints.rust]
unexpected_cfgs = {{ level = "allow" }}
"""

#!/bin/bash
# usage: lab.sh <labname> <mutant e.g. C01/m1 | none> <check ids...>
# A lab = scratch worktree of /repo + a copy of /verif whose harness points at that worktree.
set -u
lab=/tmp/mlab/$1; mut=$2; shift 2
mkdir -p /tmp/mlab
if [ ! -d $lab/repo ]; then git -C /repo worktree add --detach $lab/repo HEAD >/dev/null 2>&1 || exit 8; fi
git -C $lab/repo checkout -q --detach $(git -C /repo rev-parse HEAD) 2>/dev/null
git -C $lab/repo checkout -q -- . 
mkdir -p $lab/verif
# committed state only (never a half-edited tree); keep the lab's own build directories
rm -rf $lab/export && mkdir -p $lab/export && git -C /verif archive HEAD | tar -x -C $lab/export
rsync -a --delete --exclude 'target*' --exclude work --exclude replays --exclude evidence --exclude 'derivelab/out' $lab/export/ $lab/verif/
sed -i "s|path = \"/repo\"|path = \"$lab/repo\"|" $lab/verif/harness/Cargo.toml $lab/verif/harness/cfgprobe/Cargo.toml $lab/verif/harness/fuzz/Cargo.toml
sed -i "s|^REPO = \"/repo\"|REPO = \"$lab/repo\"|" $lab/verif/check
if [ "$mut" != none ]; then
  git -C $lab/repo apply /verif/work/mut_raw/$mut/patch.diff || { echo "APPLY FAILED $mut"; exit 9; }
fi
cd $lab/verif
for c in "$@"; do
  VERIF_TIER=${TIER:-quick} timeout 6000 ./check $c > $lab/out_$c.txt 2> $lab/err_$c.txt; rc=$?
  echo "LAB $1 mutant=$mut check=$c rc=$rc viol_lines=$(grep -c '^VIOLATION' $lab/out_$c.txt) known=$(grep -c '^KNOWN' $lab/out_$c.txt) inconcl=$(grep -c '^INCONCLUSIVE' $lab/out_$c.txt) :: $(grep -m1 -E 'VIOL |INCONCLUSIVE' $lab/err_$c.txt $lab/out_$c.txt | cut -c1-260)"
done
git -C $lab/repo checkout -q -- .

#!/usr/bin/env python3
"""Build /verif/seeded/<id>/ from confirmed mutants: patch.diff, demo, meta.json (property, what it needs, what was run, which checks catch it)."""
import glob, json, os, re, shutil
confirm = {}
for f in sorted(glob.glob('/verif/work/confirm*.log')):
    for l in open(f):
        m = re.match(r'CONFIRM (\S+) demo_clean_rc=(\d+) demo_mutant_rc=(\d+) suite_unexpected_failures=(\d+) suite_passed=(\d+) compile_errors=(\d+)', l)
        if m:
            confirm[m.group(1)] = dict(demo_clean_rc=int(m.group(2)), demo_mutant_rc=int(m.group(3)), suite_fail_lines=int(m.group(4)), suite_passed=int(m.group(5)), compile_errors=int(m.group(6)))
caught = {}
for f in sorted(glob.glob('/verif/work/batch*.log')):
    for l in open(f):
        m = re.match(r'LAB \S+ mutant=(\S+) check=(\S+) rc=(\d+) viol_lines=(\d+)', l)
        if m and int(m.group(3)) in (0, 1):
            caught.setdefault(m.group(1), {})[m.group(2)] = (int(m.group(3)) == 1)
# confirmed demos that, on inspection, do not break the property as stated (see DESIGN.md section 4, C11)
EXCLUDED = {'C11/r4m2': 'makes Vec<u128> cost a depth level like Vec<bool>: allowed by the property under either reading'}
n = 0
for d in sorted(glob.glob('/verif/work/mut_raw/C*/*m[12]')):
    mid = '/'.join(d.split('/')[-2:])
    if mid in EXCLUDED:
        print('excluded:', mid, EXCLUDED[mid])
        continue
    c = confirm.get(mid)
    if not c or c['demo_clean_rc'] != 0 or c['demo_mutant_rc'] == 0 or c['compile_errors'] or c['suite_fail_lines'] != 3:
        print('not confirmed:', mid, c)
        continue
    out = '/verif/seeded/' + mid.replace('/', '-')
    os.makedirs(out, exist_ok=True)
    shutil.copy(d + '/patch.diff', out + '/patch.diff')
    for f in glob.glob(d + '/demo*'):
        shutil.copy(f, out + '/' + os.path.basename(f))
    try:
        meta = json.load(open(d + '/meta.json'))
    except Exception:
        meta = {}
    meta['id'] = mid.replace('/', '-')
    meta['confirmed'] = dict(
        how="scratch worktree of /repo HEAD: demo test passes on the clean tree, fails with the patch; `cargo test --workspace --no-fail-fast --offline` with the patch fails only the 3 always-failing trybuild UI targets",
        demo_clean_rc=c['demo_clean_rc'], demo_with_patch_rc=c['demo_mutant_rc'], suite_tests_passed_with_patch=c['suite_passed'])
    meta['checks_run'] = {k: ('VIOLATION' if v else 'silent') for k, v in sorted(caught.get(mid, {}).items())}
    meta['caught_by'] = sorted(k for k, v in caught.get(mid, {}).items() if v)
    json.dump(meta, open(out + '/meta.json', 'w'), indent=1)
    n += 1
print(n, 'seeded')

#!/bin/bash
# sweep.sh <seed> [tier]: run every check at that seed on /repo, log rc and summary
cd /verif
seed=$1; tier=${2:-quick}
for c in C01 C02 C03 C04 C05 C06 C07 C08 C09 C10 C11 C12 C13 C14 C15 C16 C17 C18 C19 C20; do
  t0=$(date +%s)
  VERIF_SEED=$seed VERIF_TIER=$tier ./check $c > work/sweep_${seed}_$c.out 2> work/sweep_${seed}_$c.err; rc=$?
  echo "SWEEP seed=$seed tier=$tier $c rc=$rc $(( $(date +%s) - t0 ))s :: $(grep -c '^VIOLATION' work/sweep_${seed}_$c.out) viol, $(grep -c '^KNOWN' work/sweep_${seed}_$c.out) known :: $(tail -1 work/sweep_${seed}_$c.err | cut -c1-160)"
done

#!/bin/bash
# confirm.sh <mutant ids...>: in a scratch worktree check (1) patch applies+compiles, (2) repo suite passes except the 3 UI targets,
# (3) demo fails with the patch, (4) demo passes without it.
W=/tmp/mlab/B/repo
mkdir -p /tmp/mlab/B
[ -d $W ] || git -C /repo worktree add --detach $W HEAD >/dev/null 2>&1
git -C $W checkout -q --detach $(git -C /repo rev-parse HEAD); git -C $W checkout -q -- .; git -C $W clean -fdq tests
FEAT=derive,bit-vec,bytes,generic-array,max-encoded-len
for m in "$@"; do
  d=/verif/work/mut_raw/$m; k=$(basename $m)
  git -C $W checkout -q -- .; rm -f $W/tests/demo_*.rs
  extra=""; flags=""
  case $m in C19/m2) flags="--cfg psc_verif";; esac
  FA="--features $FEAT"
  case $m in C20/r3m1) FA="--no-default-features --features chain-error,$FEAT";; C20/r3m2) FA="--no-default-features --features $FEAT";; esac
  # demo without patch
  cp $d/demo.rs $W/tests/demo_$k.rs
  ( cd $W && RUSTFLAGS="$flags" cargo test --offline $FA --test demo_$k > /tmp/mlab/B/demo_clean.log 2>&1 ); clean_rc=$?
  if ! git -C $W apply $d/patch.diff; then echo "CONFIRM $m APPLY-FAILED"; continue; fi
  ( cd $W && RUSTFLAGS="$flags" cargo test --offline $FA --test demo_$k > /tmp/mlab/B/demo_mut.log 2>&1 ); mut_rc=$?
  rm -f $W/tests/demo_$k.rs
  ( cd $W && cargo test --workspace --no-fail-fast --offline > /tmp/mlab/B/suite.log 2>&1 )
  failed=$(grep -E "^test .* FAILED|^error: test failed" /tmp/mlab/B/suite.log | grep -v "derive_no_bound_ui\|scale_codec_ui_tests\|max_encoded_len_ui\|decode_with_mem_tracking_ui\|scale_codec_ui" | wc -l)
  passed=$(grep -E "^test result: ok" /tmp/mlab/B/suite.log | awk '{s+=$4} END {print s}')
  compile_err=$(grep -c "^error\[E\|could not compile" /tmp/mlab/B/suite.log)
  echo "CONFIRM $m demo_clean_rc=$clean_rc demo_mutant_rc=$mut_rc suite_unexpected_failures=$failed suite_passed=$passed compile_errors=$compile_err"
  git -C $W checkout -q -- .
done

import json,sys
pid=sys.argv[1]; n=sys.argv[2] if len(sys.argv)>2 else "2"
rnd=sys.argv[3] if len(sys.argv)>3 else "1"
wtname=pid if rnd=="1" else f"{pid}r{rnd}"
extra=""
if rnd!="1":
    prev=json.load(open('/verif/work/round1_summaries.json')).get(pid,[])
    extra="\n\nALREADY-KNOWN MUTANTS for this property (from an earlier round) - do NOT repeat these mechanisms or trivially vary them; find DIFFERENT code sites and different kinds of mistakes:\n" + "\n".join(f"  - {x}" for x in prev) + "\n\nFor this round, aim for SUBTLE changes that only manifest in a narrow corner: a specific type instantiation (e.g. a particular tuple arity, zero-sized or zero-length element types, nested wrappers, signed vs unsigned, 128-bit, floats, maps with unusual key types, arrays of length 0/1, generic or recursive derived types, enums with unusual index layouts), a boundary length (chunk / preallocation / compact-mode boundaries), a particular Input or Output implementation, a particular order of operations, a specific feature combination, or an error path reached only by a crafted malformed input. Avoid changes that a simple round trip of common types would reveal."

for l in open('/verif/properties.jsonl'):
    p=json.loads(l)
    if p['id']==pid: break
wt=f"/tmp/mut/{wtname}"
print(f"""You are helping to evaluate a verification effort for the Rust crate parity-scale-codec (SCALE binary codec: Encode/Decode traits, compact integers, derive macros). Your job is to act as a realistic "bug author".

You have your own scratch git worktree of the repository at {wt} (a detached checkout; the crate root is that directory, the derive macros are in {wt}/derive). Work ONLY inside {wt}. Do not read or write anything under /verif or /repo. The machine has no network: always use `cargo ... --offline`. The default toolchain is stable Rust; all dependencies are vendored in the cargo cache.

THE PROPERTY (a semantic guarantee users of the crate rely on):

  Title: {p['title']}
  Statement: {p['statement']}
  Quantified over: {p['quantifier']['text']}{extra}

TASK: produce {n} different, independent source changes ("mutants") to the crate (files under {wt}/src or {wt}/derive/src), each of which
  (1) BREAKS the property above for at least one concrete input / type / sequence of operations,
  (2) still COMPILES, and
  (3) still PASSES the repository's existing test suite: run `cd {wt} && cargo test --workspace --no-fail-fast --offline 2>&1 | tail -60`. NOTE: on the unmodified tree exactly three trybuild UI test targets always fail (`scale_codec_ui`, `max_encoded_len_ui`, `decode_with_mem_tracking_ui`) - ignore those three; every other test (unit tests, integration tests, doctests) must still pass with your change.
  (4) looks like a plausible mistake or "optimisation" a maintainer could make (an off-by-one, a dropped check, a wrong constant, a reordering, a fast path that is wrong in a corner case, two cooperating sites that each look fine alone) - not sabotage that ordinary use would expose at once. Prefer changes that need something specific to manifest: an unusual input, a particular type instantiation, a boundary length, a multi-step sequence of operations, a failure at a particular point, a particular feature combination.
Each mutant should be small (a few lines) and the {n} mutants should use different mechanisms / touch different code.

For each mutant k = 1..{n} deliver, in the directory {wt}/out/m<k>/ :
  - patch.diff : output of `git diff` (relative to the unmodified HEAD) containing ONLY that mutant's change to the crate sources (not the demo). It must apply with `git apply` on a clean checkout.
  - a demonstration: either a Rust integration test file `demo.rs` (to be copied to tests/demo_m<k>.rs of the crate and run with `cargo test --offline --features derive,bit-vec,bytes,generic-array,max-encoded-len --test demo_m<k>`; say so if it needs other features) or a small program; it must FAIL (or visibly misbehave) with the patch applied and PASS on the unmodified tree. Confirm both yourself.
  - meta.json : {{"property": "{pid}", "summary": "<one sentence: what was changed>", "needs": "<what specific input / sequence / condition is needed for the break to manifest>", "ran": "<the commands you ran to confirm: test suite with the patch, demo with and without the patch, and their results>"}}

Procedure suggestion: read the relevant sources first (anchors: {', '.join(p['anchors']['files'])}), design a change, apply it, run the full test suite, write the demo, confirm fail-with / pass-without (use `git stash` or `git apply -R`), save files under out/m<k>/, then `git checkout -- src derive` (keep out/) before starting the next mutant. Leave the worktree's tracked files UNMODIFIED at the end (all mutants reverted; only the untracked out/ directory remains). Do not commit anything. Use `CARGO_TARGET_DIR={wt}/target` (the default) so your build output stays inside the worktree.

If a candidate change makes an existing test fail, discard or refine it - that is expected and part of the job. Final answer: a short list of the mutants with their one-line summaries and confirmation status.""")

//! Generic monitor suite run by generated derive programs (properties C05 and C13): the program
//! generator emits type definitions plus their schema (written from the definition text); this
//! module runs the wire-format, round-trip, hostile-decode, skipped-variant and declared-length
//! monitors over them.

use crate::gen::{mutate, random_bytes, Gen};
use crate::model::*;
use crate::ops::TypeOps;
use crate::report::{catch, hash64, jobj, jstr, Report};
use crate::rng::Rng;
use crate::spy::SpyInput;

pub struct SuiteArgs {
	pub prop: String,
	pub seed: u64,
	pub values: u64,
	pub out: String,
}

pub fn parse_args() -> SuiteArgs {
	let args: Vec<String> = std::env::args().collect();
	let get = |n: &str| args.iter().position(|a| a == n).and_then(|i| args.get(i + 1).cloned());
	SuiteArgs {
		prop: get("--prop").unwrap_or_else(|| "C05".into()),
		seed: get("--seed").and_then(|s| s.parse().ok()).unwrap_or(1),
		values: get("--values").and_then(|s| s.parse().ok()).unwrap_or(200),
		out: get("--out").unwrap_or_else(|| "/dev/stdout".into()),
	}
}

fn replay(prop: &str, ops: &TypeOps, def: &str, bytes: &[u8]) -> String {
	jobj(&[("property", jstr(prop)), ("type", jstr(ops.name)), ("definition", jstr(def)), ("bytes", jstr(&hex(bytes)))])
}

fn same(ops: &TypeOps, model: &Val, real: &Val) -> bool {
	let m = (ops.canon)(model);
	m == *real || m == (ops.canon)(real)
}

/// All (variant position, variant) pairs of skipped variants reachable at the top of `ty`.
fn skipped_variants(ty: &Ty) -> Vec<usize> {
	match ty.deref() {
		Ty::Enum { variants, .. } => variants.iter().enumerate().filter(|(_, v)| v.skipped).map(|(i, _)| i).collect(),
		_ => Vec::new(),
	}
}

fn has_encodable_value(ty: &Ty) -> bool {
	match ty.deref() {
		Ty::Enum { variants, .. } => variants.iter().any(|v| !v.skipped),
		_ => true,
	}
}

/// `defs[i]` is the definition text the i-th type was generated from (for witnesses).
pub fn run_derive_suite(types: &[TypeOps], defs: &[&str], args: &SuiteArgs) {
	let mut rep = Report::new(&args.prop);
	rep.max_samples = 10;
	if std::env::var("VERIF_VERBOSE_PANICS").is_err() {
		std::panic::set_hook(Box::new(|_| {}));
	}
	run_types(&mut rep, types, defs, args);
	rep.write(&args.out);
}

/// The monitors proper, reporting into `rep`.
pub fn run_types(rep: &mut Report, types: &[TypeOps], defs: &[&str], args: &SuiteArgs) {
	let prop = args.prop.as_str();
	let mut rep = rep;
	for (ti, ops) in types.iter().enumerate() {
		let def = defs.get(ti).copied().unwrap_or("");
		let mut rng = Rng::new(args.seed ^ hash64(&ops.name));
		rep.count("types_exercised");
		if prop == "C13" {
			c13_type(ops, def, &mut rng, args.values, &mut rep);
			continue;
		}
		// ---- skipped variants: encoding yields no bytes and terminates
		for vi in skipped_variants(&ops.ty) {
			let fields = match ops.ty.deref() {
				Ty::Enum { variants, .. } => variants[vi].fields.clone(),
				_ => unreachable!(),
			};
			let vals: Vec<Val> = fields
				.iter()
				.map(|f| {
					let mut g = Gen::small(&mut rng);
					// skipped variants still hold values of the declared field types
					g.val(&f.ty)
				})
				.collect();
			let v = Val::Variant(vi, vals);
			rep.evaluations += 1;
			rep.count("skipped_variant_encodes");
			rep.begin(|| format!("{prop} {} encode skipped variant #{vi}", ops.name));
			rep.nontrivial(hash64(&(ops.name, "skipped", vi)));
			match catch(|| (ops.enc)(&v, 1)) {
				Ok(r) => {
					if !r.encode.is_empty() || !r.using.is_empty() || r.size != 0 || !r.to_dyn.data.is_empty() {
						rep.violation(
							&format!("skipped-variant-bytes:{}", ops.name),
							format!("{}: encoding a value in skipped variant #{vi} produced bytes: encode {} using_encoded {} size {}", ops.name, hex(&r.encode), hex(&r.using), r.size),
							replay(prop, ops, def, &[]),
						);
					}
				},
				Err(p) => rep.violation(&format!("skipped-variant-panic:{}", ops.name), format!("{}: encoding a skipped variant panicked: {p}", ops.name), replay(prop, ops, def, &[])),
			}
		}
		if !has_encodable_value(&ops.ty) {
			// nothing can be encoded or decoded: every index byte must be rejected
			if let Some(d) = &ops.dec {
				for b in 0..=255u8 {
					rep.evaluations += 1;
					if let Ok((Some(v), _)) = catch(|| (d.slice)(&[b, 0, 0, 0])) {
						rep.violation(&format!("unknown-index-accepted:{}", ops.name), format!("{}: index byte {b} names no variant but decoded to {}", ops.name, show_val(&v)), replay(prop, ops, def, &[b]));
					}
				}
			}
			continue;
		}
		let mut prev: Vec<u8> = Vec::new();
		for i in 0..args.values {
			let raw = {
				let mut g = if i % 3 == 0 { Gen::new(&mut rng) } else { Gen::small(&mut rng) };
				g.val(&ops.ty)
			};
			let val = (ops.canon)(&raw);
			let (spec, marks) = spec_encode_marks(&ops.ty, &val);
			rep.begin(|| format!("{prop} {} value {}", ops.name, hex(&spec)));
			// ---- layout: bytes equal the concatenation computed from the definition
			rep.evaluations += 1;
			let real = match catch(|| (ops.enc)(&val, i)) {
				Ok(r) => r,
				Err(p) => {
					rep.violation(&format!("encode-panic:{}", ops.name), format!("{}: encode panicked: {p}", ops.name), replay(prop, ops, def, &spec));
					continue;
				},
			};
			if spec.len() >= 2 {
				rep.nontrivial(hash64(&(ops.name, &spec)));
			}
			if real.encode != spec {
				rep.violation(
					&format!("layout:{}", ops.name),
					format!("{}: value {} encodes to {} but the declared layout gives {}", ops.name, show_val(&val), hex(&real.encode[..real.encode.len().min(64)]), hex(&spec[..spec.len().min(64)])),
					replay(prop, ops, def, &spec),
				);
			}
			if real.using != real.encode || real.to_dyn.data != real.encode || real.to_io != real.encode || real.size != real.encode.len() {
				rep.violation(&format!("entry-points:{}", ops.name), format!("{}: the encoding entry points disagree for {}", ops.name, show_val(&val)), replay(prop, ops, def, &spec));
			}
			let Some(d) = &ops.dec else { continue };
			// ---- decoding inverts it, skipped fields take their default
			let mut input = real.encode.clone();
			input.extend_from_slice(&[0xEE, 0x01]);
			let mut spy = SpyInput::new(&input);
			match catch(|| (d.dynamic)(&mut spy)) {
				Ok(Some(v)) =>
					if !same(ops, &val, &v) || spy.pos != real.encode.len() {
						rep.violation(
							&format!("roundtrip:{}", ops.name),
							format!("{}: {} decodes back as {} consuming {} of {} bytes", ops.name, show_val(&val), show_val(&v), spy.pos, real.encode.len()),
							replay(prop, ops, def, &real.encode),
						);
					},
				Ok(None) => rep.violation(&format!("roundtrip-reject:{}", ops.name), format!("{}: its own encoding of {} was rejected", ops.name, show_val(&val)), replay(prop, ops, def, &real.encode)),
				Err(p) => rep.violation(&format!("decode-panic:{}", ops.name), format!("{}: decode panicked: {p}", ops.name), replay(prop, ops, def, &real.encode)),
			}
			// ---- hostile strings against the model built from the definition
			let mut strings: Vec<(Vec<u8>, &'static str)> = Vec::new();
			for _ in 0..4 {
				strings.push(mutate(&spec, &marks, &prev, &mut rng));
			}
			if let Some((f, what)) = spec_encode_faulty(&ops.ty, &val, &mut rng) {
				strings.push((f, what));
			}
			strings.push((random_bytes(&mut rng, 200), "random"));
			if i < 256 {
				// every possible leading byte (for enums: every index byte)
				let mut s = spec.clone();
				if s.is_empty() {
					s.push(0);
				}
				s[0] = i as u8;
				strings.push((s, "leading-byte-sweep"));
			}
			for (b, origin) in strings {
				let model = spec_decode(&ops.ty, &b);
				if let Err(Reject::Budget) = model {
					continue;
				}
				rep.evaluations += 1;
				rep.count("hostile_strings");
				rep.begin(|| format!("{prop} {} {origin} {}", ops.name, hex(&b)));
				match (model, catch(|| (d.slice)(&b))) {
					(_, Err(p)) => rep.violation(&format!("decode-panic:{}", ops.name), format!("{}: decode panicked on {}: {p}", ops.name, hex(&b)), replay(prop, ops, def, &b)),
					(Ok((mv, mu)), Ok((Some(rv), ru))) =>
						if !same(ops, &mv, &rv) || mu != ru {
							rep.violation(&format!("decode-value:{}", ops.name), format!("{}: {} decodes to {} ({} bytes) but the declared layout reads {} ({} bytes)", ops.name, hex(&b[..b.len().min(48)]), show_val(&rv), ru, show_val(&mv), mu), replay(prop, ops, def, &b));
						},
					(Ok((mv, _)), Ok((None, _))) => rep.violation(&format!("decode-rejects-valid:{}", ops.name), format!("{}: {} is a valid encoding of {} but was rejected", ops.name, hex(&b[..b.len().min(48)]), show_val(&mv)), replay(prop, ops, def, &b)),
					(Err(why), Ok((Some(rv), _))) => {
						let sig = if why == Reject::BadVariant { "unknown-index-accepted" } else { "decode-accepts-invalid" };
						rep.violation(&format!("{sig}:{}", ops.name), format!("{}: malformed input {} ({:?}, {origin}) decoded to {}", ops.name, hex(&b[..b.len().min(48)]), why, show_val(&rv)), replay(prop, ops, def, &b));
					},
					(Err(why), Ok((None, _))) => {
						if why == Reject::BadVariant {
							rep.count("unknown_index_rejected");
						}
					},
				}
			}
			if rep.want_sample() && spec.len() >= 2 {
				rep.sample(jobj(&[("type", jstr(ops.name)), ("definition", jstr(&def[..def.len().min(400)])), ("value", jstr(&show_val(&val))), ("bytes", jstr(&hex(&spec[..spec.len().min(48)])))]));
			}
			prev = spec;
		}
	}
	let _ = &mut rep;
}

fn c13_type(ops: &TypeOps, def: &str, rng: &mut Rng, n: u64, rep: &mut Report) {
	let Some(mel) = ops.mel else { return };
	if !has_encodable_value(&ops.ty) {
		return;
	}
	rep.count("types_with_declared_max");
	let declared = mel();
	// the schema's own maximum is a witness generator, not the verdict: the verdict is always a
	// concrete value that encodes longer than declared
	let mut vals: Vec<(Val, &str)> = Vec::new();
	if let Some(mv) = longest_value(&ops.ty, 0) {
		vals.push(((ops.canon)(&mv), "schema's longest value"));
		rep.count("max_witnesses");
	}
	for i in 0..n {
		let mut g = if i % 3 == 0 { Gen::new(rng) } else { Gen::small(rng) };
		let raw = g.val(&ops.ty);
		vals.push(((ops.canon)(&raw), "generated"));
	}
	for (val, what) in vals {
		rep.evaluations += 1;
		let enc = match catch(|| (ops.enc_plain)(&val)) {
			Ok(e) => e,
			Err(_) => continue,
		};
		if enc.len() >= 2 {
			rep.nontrivial(hash64(&(ops.name, &enc)));
		}
		if enc.len() == declared {
			rep.count("bound_attained");
		}
		if enc.len() > declared {
			rep.violation(
				&format!("max-encoded-len:{}", ops.name),
				format!("{}: {} ({what}) encodes to {} bytes but the derived max_encoded_len() = {declared}", ops.name, show_val(&val), enc.len()),
				replay("C13", ops, def, &enc),
			);
		}
		if ops.cel && enc.len() != declared {
			rep.violation(&format!("const-encoded-len:{}", ops.name), format!("{}: marked ConstEncodedLen ({declared}) but {} encodes to {} bytes", ops.name, show_val(&val), enc.len()), replay("C13", ops, def, &enc));
		}
		if rep.want_sample() && enc.len() >= 2 {
			rep.sample(jobj(&[("type", jstr(ops.name)), ("definition", jstr(&def[..def.len().min(300)])), ("len", enc.len().to_string()), ("declared_max", declared.to_string())]));
		}
	}
}

/// The value of `ty` with the longest encoding (None if unbounded).
pub fn longest_value(ty: &Ty, depth: u32) -> Option<Val> {
	if depth > 10 {
		return None;
	}
	let fields = |fs: &[FieldTy]| -> Option<Vec<Val>> {
		fs.iter()
			.map(|f| match &f.wire {
				Some(w) => longest_value(w, depth + 1),
				None => Some(Val::Unit),
			})
			.collect()
	};
	Some(match ty {
		Ty::Int { bytes, .. } | Ty::NonZero { bytes, .. } => Val::Int(mask(*bytes)),
		Ty::F32 | Ty::F64 => Val::Int(0x7fc0_0000),
		Ty::Bool => Val::Bool(true),
		Ty::Unit => Val::Unit,
		Ty::Compact { bits } => Val::Int(mask(bits / 8)),
		Ty::Option(t) => Val::Opt(Some(Box::new(longest_value(t, depth + 1)?))),
		Ty::Result(a, b) =>
			if a.max_len()? >= b.max_len()? {
				Val::Res(Ok(Box::new(longest_value(a, depth + 1)?)))
			} else {
				Val::Res(Err(Box::new(longest_value(b, depth + 1)?)))
			},
		Ty::OptionBool => Val::OptBool(Some(true)),
		Ty::Array(e, n) => Val::Seq((0..*n).map(|_| longest_value(e, depth + 1)).collect::<Option<Vec<_>>>()?),
		Ty::Tuple(ts) => Val::Tuple(ts.iter().map(|t| longest_value(t, depth + 1)).collect::<Option<Vec<_>>>()?),
		Ty::Duration => Val::Tuple(vec![Val::Int(u64::MAX as u128), Val::Int(999_999_999)]),
		Ty::Ptr(t, _) => longest_value(t, depth + 1)?,
		Ty::Struct { fields: fs, .. } => Val::Tuple(fields(fs)?),
		Ty::Enum { variants, .. } => {
			let mut best: Option<(usize, usize)> = None;
			for (i, v) in variants.iter().enumerate().filter(|(_, v)| !v.skipped) {
				let mut l = 1;
				for f in &v.fields {
					if let Some(w) = &f.wire {
						l += w.max_len()?;
					}
				}
				if best.map_or(true, |(_, bl)| l > bl) {
					best = Some((i, l));
				}
			}
			let (i, _) = best?;
			Val::Variant(i, fields(&variants[i].fields)?)
		},
		Ty::Named(_) | Ty::Seq { .. } | Ty::Map(..) | Ty::Str | Ty::Bits { .. } => return None,
	})
}

/// Wire type of a `#[codec(compact)]` field whose declared type has model type `t`.
pub fn compact_of(t: &Ty) -> Ty {
	match t.deref() {
		Ty::Int { bytes, signed: false } => Ty::Compact { bits: bytes * 8 },
		Ty::Compact { bits } => Ty::Compact { bits: *bits },
		other => panic!("compact_of: no compact form for {:?}", other),
	}
}

//! Boundary sensors: `Input` / `Output` implementations that record what the codec does at its
//! public boundary, plus the pieces used to build input stacks.

use crate::rng::Rng;
use parity_scale_codec::{Decode, DecodeLimit, Error, Input, Output};
use std::cell::RefCell;

#[derive(Clone, Debug, PartialEq, Eq)]
pub enum Ev {
	/// successful `read` of n bytes
	Read(usize),
	/// failed `read` of n bytes
	ReadFail(usize),
	Byte,
	ByteFail,
	Descend,
	Ascend,
	Alloc(usize),
	RemLen,
}

/// What to do at the k-th (0-based) data request (`read` or `read_byte`).
#[derive(Clone, Copy, Debug, PartialEq, Eq)]
pub enum Fault {
	None,
	/// return `Err` as if the input was exhausted
	FailAt(u64),
	/// panic inside the input
	PanicAt(u64),
}

pub struct SpyInput<'a> {
	pub data: &'a [u8],
	pub pos: usize,
	pub known_len: bool,
	pub requests: u64,
	pub reads_ok: u64,
	pub reads_failed: u64,
	pub delivered: u64,
	pub max_read: usize,
	pub depth: i64,
	pub max_depth: i64,
	pub min_depth: i64,
	pub descends: u64,
	pub ascends: u64,
	pub alloc_calls: u64,
	pub alloc_sum: u128,
	pub alloc_max: usize,
	pub remlen_calls: u64,
	pub fault: Fault,
	pub trace: Option<Vec<Ev>>,
}

impl<'a> SpyInput<'a> {
	pub fn new(data: &'a [u8]) -> Self {
		SpyInput {
			data,
			pos: 0,
			known_len: true,
			requests: 0,
			reads_ok: 0,
			reads_failed: 0,
			delivered: 0,
			max_read: 0,
			depth: 0,
			max_depth: 0,
			min_depth: 0,
			descends: 0,
			ascends: 0,
			alloc_calls: 0,
			alloc_sum: 0,
			alloc_max: 0,
			remlen_calls: 0,
			fault: Fault::None,
			trace: None,
		}
	}

	pub fn unknown_len(data: &'a [u8]) -> Self {
		let mut s = Self::new(data);
		s.known_len = false;
		s
	}

	pub fn traced(mut self) -> Self {
		self.trace = Some(Vec::new());
		self
	}

	pub fn with_fault(mut self, f: Fault) -> Self {
		self.fault = f;
		self
	}

	fn ev(&mut self, e: Ev) {
		if let Some(t) = &mut self.trace {
			if t.len() < 100_000 {
				t.push(e);
			}
		}
	}

	fn check_fault(&mut self) -> Result<(), Error> {
		let k = self.requests;
		self.requests += 1;
		match self.fault {
			Fault::FailAt(n) if n == k => Err("spy: injected input failure".into()),
			Fault::PanicAt(n) if n == k => panic!("spy: injected input panic"),
			_ => Ok(()),
		}
	}

	pub fn remaining(&self) -> usize {
		self.data.len() - self.pos
	}
}

impl<'a> Input for SpyInput<'a> {
	fn remaining_len(&mut self) -> Result<Option<usize>, Error> {
		self.remlen_calls += 1;
		self.ev(Ev::RemLen);
		Ok(if self.known_len { Some(self.data.len() - self.pos) } else { None })
	}

	fn read(&mut self, into: &mut [u8]) -> Result<(), Error> {
		if let Err(e) = self.check_fault() {
			self.reads_failed += 1;
			self.ev(Ev::ReadFail(into.len()));
			return Err(e);
		}
		let n = into.len();
		if n > self.data.len() - self.pos {
			self.reads_failed += 1;
			self.ev(Ev::ReadFail(n));
			return Err("spy: not enough data".into());
		}
		into.copy_from_slice(&self.data[self.pos..self.pos + n]);
		self.pos += n;
		self.reads_ok += 1;
		self.delivered += n as u64;
		self.max_read = self.max_read.max(n);
		self.ev(Ev::Read(n));
		Ok(())
	}

	fn read_byte(&mut self) -> Result<u8, Error> {
		if let Err(e) = self.check_fault() {
			self.reads_failed += 1;
			self.ev(Ev::ByteFail);
			return Err(e);
		}
		if self.pos >= self.data.len() {
			self.reads_failed += 1;
			self.ev(Ev::ByteFail);
			return Err("spy: not enough data".into());
		}
		let b = self.data[self.pos];
		self.pos += 1;
		self.reads_ok += 1;
		self.delivered += 1;
		self.max_read = self.max_read.max(1);
		self.ev(Ev::Byte);
		Ok(b)
	}

	fn descend_ref(&mut self) -> Result<(), Error> {
		self.depth += 1;
		self.descends += 1;
		self.max_depth = self.max_depth.max(self.depth);
		self.ev(Ev::Descend);
		Ok(())
	}

	fn ascend_ref(&mut self) {
		self.depth -= 1;
		self.ascends += 1;
		self.min_depth = self.min_depth.min(self.depth);
		self.ev(Ev::Ascend);
	}

	fn on_before_alloc_mem(&mut self, size: usize) -> Result<(), Error> {
		self.alloc_calls += 1;
		self.alloc_sum += size as u128;
		self.alloc_max = self.alloc_max.max(size);
		self.ev(Ev::Alloc(size));
		Ok(())
	}
}

/// Type erasure: lets one monomorphic instantiation of a decoder run over any input stack.
/// Forwards every `Input` method verbatim.
pub struct Dyn<'a>(pub &'a mut dyn Input);

impl<'a> Input for Dyn<'a> {
	fn remaining_len(&mut self) -> Result<Option<usize>, Error> {
		self.0.remaining_len()
	}
	fn read(&mut self, into: &mut [u8]) -> Result<(), Error> {
		self.0.read(into)
	}
	fn read_byte(&mut self) -> Result<u8, Error> {
		self.0.read_byte()
	}
	fn descend_ref(&mut self) -> Result<(), Error> {
		self.0.descend_ref()
	}
	fn ascend_ref(&mut self) {
		self.0.ascend_ref()
	}
	fn on_before_alloc_mem(&mut self, size: usize) -> Result<(), Error> {
		self.0.on_before_alloc_mem(size)
	}
}

// ------------------------------------------------------------------------------------------
// depth-limit layer: `DepthTrackingInput` is private, so it is inserted through the public
// `decode_with_depth_limit` entry point with a shim type whose `decode` hands the (wrapped)
// input back to a continuation.

type Cont<'a> = &'a mut dyn FnMut(&mut dyn Input) -> Result<(), Error>;

thread_local! {
	static CONTS: RefCell<Vec<*mut (dyn FnMut(&mut dyn Input) -> Result<(), Error> + 'static)>> = const { RefCell::new(Vec::new()) };
}

struct Shim;

impl Decode for Shim {
	fn decode<I: Input>(input: &mut I) -> Result<Self, Error> {
		let p = CONTS.with(|c| c.borrow_mut().pop()).expect("shim: no continuation");
		// SAFETY: the pointer was pushed by `with_depth_layer`, which is still on the stack below
		// us and keeps the closure alive and un-aliased until `decode_with_depth_limit` returns.
		let f = unsafe { &mut *p };
		f(input as &mut dyn Input)?;
		Ok(Shim)
	}
}

/// Run `f` with `base` wrapped in the crate's depth-limiting input configured with `limit`.
pub fn with_depth_layer(base: &mut dyn Input, limit: u32, f: Cont<'_>) -> Result<(), Error> {
	// erase the lifetime for storage in the thread local; see SAFETY above
	let p: *mut (dyn FnMut(&mut dyn Input) -> Result<(), Error> + '_) = f;
	let p: *mut (dyn FnMut(&mut dyn Input) -> Result<(), Error> + 'static) = unsafe { core::mem::transmute(p) };
	let before = CONTS.with(|c| {
		let mut c = c.borrow_mut();
		c.push(p);
		c.len()
	});
	let mut d = Dyn(base);
	let r = <Shim as DecodeLimit>::decode_with_depth_limit(limit, &mut d);
	// if the limiter failed before reaching the shim, pop our continuation
	CONTS.with(|c| {
		let mut c = c.borrow_mut();
		if c.len() >= before {
			c.truncate(before - 1);
		}
	});
	r.map(|_| ())
}

#[derive(Clone, Copy, Debug, PartialEq, Eq)]
pub enum Layer {
	Counted,
	Depth(u32),
	Mem(usize),
}

/// Build the wrapper stack `layers` (outermost last) over `base` and run `f` on top of it.
/// The decoder therefore talks to `layers.last()`, which talks to ..., which talks to `base`.
pub fn with_stack(
	base: &mut dyn Input,
	layers: &[Layer],
	f: &mut dyn FnMut(&mut dyn Input) -> Result<(), Error>,
) -> Result<(), Error> {
	match layers.split_first() {
		None => f(base),
		Some((Layer::Counted, rest)) => {
			let mut d = Dyn(base);
			let mut c = parity_scale_codec::CountedInput::new(&mut d);
			with_stack(&mut c, rest, f)
		},
		Some((Layer::Mem(limit), rest)) => {
			let mut d = Dyn(base);
			let mut m = parity_scale_codec::MemTrackingInput::new(&mut d, *limit);
			with_stack(&mut m, rest, f)
		},
		Some((Layer::Depth(limit), rest)) => {
			let mut inner = |i: &mut dyn Input| with_stack(i, rest, f);
			with_depth_layer(base, *limit, &mut inner)
		},
	}
}

// ------------------------------------------------------------------------------------------
// std::io based inputs

/// `io::Read` that hands out 1..=max bytes per call and sometimes reports `Interrupted`.
pub struct ShortReader<'a> {
	pub data: &'a [u8],
	pub pos: usize,
	pub rng: Rng,
	pub max: usize,
	pub calls: u64,
	pub interrupts: u64,
}

impl<'a> ShortReader<'a> {
	pub fn new(data: &'a [u8], seed: u64, max: usize) -> Self {
		ShortReader { data, pos: 0, rng: Rng::new(seed), max: max.max(1), calls: 0, interrupts: 0 }
	}
}

impl<'a> std::io::Read for ShortReader<'a> {
	fn read(&mut self, buf: &mut [u8]) -> std::io::Result<usize> {
		self.calls += 1;
		if self.rng.chance(1, 7) {
			self.interrupts += 1;
			return Err(std::io::Error::new(std::io::ErrorKind::Interrupted, "again"));
		}
		let avail = self.data.len() - self.pos;
		let n = buf.len().min(avail).min(self.rng.range(1, self.max as u64) as usize);
		buf[..n].copy_from_slice(&self.data[self.pos..self.pos + n]);
		self.pos += n;
		Ok(n)
	}
}

// ------------------------------------------------------------------------------------------
// outputs

/// Records every chunk written through the `Output` trait.
#[derive(Default)]
pub struct SpyOutput {
	pub data: Vec<u8>,
	pub writes: u64,
	pub pushes: u64,
	pub max_write: usize,
	pub chunks: Vec<u32>,
}

impl Output for SpyOutput {
	fn write(&mut self, bytes: &[u8]) {
		self.writes += 1;
		self.max_write = self.max_write.max(bytes.len());
		if self.chunks.len() < 4096 {
			self.chunks.push(bytes.len() as u32);
		}
		self.data.extend_from_slice(bytes);
	}
	fn push_byte(&mut self, byte: u8) {
		self.pushes += 1;
		if self.chunks.len() < 4096 {
			self.chunks.push(1);
		}
		self.data.push(byte);
	}
}

/// `io::Write` sink (an `Output` through the crate's blanket impl) that accepts only a few bytes
/// per call and sometimes reports `Interrupted`.
pub struct ShortWriter {
	pub data: Vec<u8>,
	pub rng: Rng,
	pub calls: u64,
}

impl ShortWriter {
	pub fn new(seed: u64) -> Self {
		ShortWriter { data: Vec::new(), rng: Rng::new(seed), calls: 0 }
	}
}

impl std::io::Write for ShortWriter {
	fn write(&mut self, buf: &[u8]) -> std::io::Result<usize> {
		self.calls += 1;
		if self.rng.chance(1, 9) {
			return Err(std::io::Error::new(std::io::ErrorKind::Interrupted, "again"));
		}
		let n = buf.len().min(self.rng.range(1, 7) as usize);
		self.data.extend_from_slice(&buf[..n]);
		Ok(n)
	}
	fn flush(&mut self) -> std::io::Result<()> {
		Ok(())
	}
}

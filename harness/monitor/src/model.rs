//! Reference model of the SCALE wire format.
//!
//! Written from the format's specification (little-endian fixed width integers, four-mode compact
//! integers with minimality, single tag bytes, count-prefixed sequences, one index byte for enums,
//! bit sequences as bit count + zero padded store words). It deliberately shares no code with the
//! crate under test: only integer arithmetic on `u128` and `core::str::from_utf8`.

use crate::rng::Rng;
use std::collections::HashMap;
use std::sync::{Mutex, OnceLock};

#[derive(Clone, Copy, Debug, PartialEq, Eq, Hash)]
pub enum SeqKind {
	Vec,
	Deque,
	List,
	Heap,
	Set,
	/// `bytes::Bytes`
	Bytes,
	/// `Cow<[T]>`
	CowSlice,
}

#[derive(Clone, Copy, Debug, PartialEq, Eq, Hash)]
pub enum PtrKind {
	Box,
	Rc,
	Arc,
	/// `Cow<'_, T>` with `T: Sized` - no heap object of its own.
	Cow,
	/// references and `Ref` (encode only)
	Ref,
}

#[derive(Clone, Debug, PartialEq, Eq, Hash)]
pub struct FieldTy {
	/// Declared type of the field.
	pub ty: Ty,
	/// How it appears on the wire: `None` = `#[codec(skip)]`, `Some(w)` = encoded as `w`
	/// (equal to `ty` for plain fields, the compact form for `compact`, the named type for
	/// `encoded_as`). Values convert between `ty` and `w` as the identity on [`Val`].
	pub wire: Option<Ty>,
}

impl FieldTy {
	pub fn plain(ty: Ty) -> Self {
		FieldTy { wire: Some(ty.clone()), ty }
	}
	pub fn skip(ty: Ty) -> Self {
		FieldTy { ty, wire: None }
	}
	pub fn as_(ty: Ty, wire: Ty) -> Self {
		FieldTy { ty, wire: Some(wire) }
	}
}

#[derive(Clone, Debug, PartialEq, Eq, Hash)]
pub struct VariantTy {
	pub name: String,
	pub index: u8,
	pub skipped: bool,
	pub fields: Vec<FieldTy>,
}

#[derive(Clone, Debug, PartialEq, Eq, Hash)]
pub enum Ty {
	Int { bytes: u8, signed: bool },
	F32,
	F64,
	Bool,
	/// `()`, `PhantomData`, `Compact<()>`: no bytes.
	Unit,
	Compact { bits: u8 },
	NonZero { bytes: u8, signed: bool },
	Option(Box<Ty>),
	Result(Box<Ty>, Box<Ty>),
	OptionBool,
	/// `elem_mem` = `size_of` of the Rust element type (0 when unknown to the model)
	Seq { elem: Box<Ty>, kind: SeqKind, elem_mem: usize },
	Map(Box<Ty>, Box<Ty>),
	Array(Box<Ty>, usize),
	Tuple(Vec<Ty>),
	Str,
	Bits { store_bytes: u8, msb0: bool, boxed: bool },
	Duration,
	Ptr(Box<Ty>, PtrKind),
	Struct { name: String, fields: Vec<FieldTy> },
	Enum { name: String, variants: Vec<VariantTy> },
	/// Reference to a registered (possibly recursive) type.
	Named(&'static str),
}

#[derive(Clone, Debug, PartialEq, Eq, Hash)]
pub enum Val {
	/// Raw bits, truncated to the width of the type (two's complement for signed, IEEE bits for
	/// floats, the value itself for compact / non-zero).
	Int(u128),
	Bool(bool),
	Unit,
	Opt(Option<Box<Val>>),
	Res(Result<Box<Val>, Box<Val>>),
	OptBool(Option<bool>),
	/// sequences, sets, arrays; maps as sequences of `Tuple([k, v])`
	Seq(Vec<Val>),
	/// tuples, struct fields (one entry per declared field, skipped ones included)
	Tuple(Vec<Val>),
	Str(String),
	Bits(Vec<bool>),
	/// position in the type's variant list + one entry per declared field
	Variant(usize, Vec<Val>),
}

#[derive(Clone, Copy, Debug, PartialEq, Eq, Hash)]
pub enum Reject {
	Eof,
	BadTag,
	BadVariant,
	BadUtf8,
	ZeroNonZero,
	Nanos,
	NonCanonical,
	TooWide,
	TooManyBits,
	/// not a rejection by the format: the model's work budget was exceeded (huge count over
	/// elements with empty encodings) - the case is skipped by the callers.
	Budget,
}

pub const REJECT_CLASSES: [Reject; 9] = [
	Reject::Eof,
	Reject::BadTag,
	Reject::BadVariant,
	Reject::BadUtf8,
	Reject::ZeroNonZero,
	Reject::Nanos,
	Reject::NonCanonical,
	Reject::TooWide,
	Reject::TooManyBits,
];

// ------------------------------------------------------------------------------------------
// registry for named / recursive types

fn registry() -> &'static Mutex<HashMap<&'static str, &'static Ty>> {
	static R: OnceLock<Mutex<HashMap<&'static str, &'static Ty>>> = OnceLock::new();
	R.get_or_init(|| Mutex::new(HashMap::new()))
}

pub fn register(name: &'static str, ty: Ty) {
	let mut r = registry().lock().unwrap();
	r.entry(name).or_insert_with(|| Box::leak(Box::new(ty)));
}

pub fn resolve(name: &'static str) -> &'static Ty {
	registry().lock().unwrap().get(name).copied().unwrap_or_else(|| panic!("unregistered type {name}"))
}

// ------------------------------------------------------------------------------------------
// helpers

pub fn mask(bytes: u8) -> u128 {
	if bytes >= 16 {
		u128::MAX
	} else {
		(1u128 << (8 * bytes as u32)) - 1
	}
}

impl Ty {
	pub fn u(bytes: u8) -> Ty {
		Ty::Int { bytes, signed: false }
	}
	pub fn i(bytes: u8) -> Ty {
		Ty::Int { bytes, signed: true }
	}
	pub fn seq(elem: Ty, kind: SeqKind) -> Ty {
		Ty::Seq { elem: Box::new(elem), kind, elem_mem: 0 }
	}
	pub fn seq_m(elem: Ty, kind: SeqKind, elem_mem: usize) -> Ty {
		Ty::Seq { elem: Box::new(elem), kind, elem_mem }
	}
	pub fn opt(t: Ty) -> Ty {
		Ty::Option(Box::new(t))
	}
	pub fn ptr(t: Ty, k: PtrKind) -> Ty {
		Ty::Ptr(Box::new(t), k)
	}

	pub fn deref(&self) -> &Ty {
		match self {
			Ty::Named(n) => resolve(n),
			t => t,
		}
	}

	/// Smallest possible encoded length of any value of the type (0 for recursion guards).
	pub fn min_len(&self) -> usize {
		self.min_len_d(0)
	}
	fn min_len_d(&self, d: u32) -> usize {
		if d > 12 {
			return 0;
		}
		match self {
			Ty::Int { bytes, .. } | Ty::NonZero { bytes, .. } => *bytes as usize,
			Ty::F32 => 4,
			Ty::F64 => 8,
			Ty::Bool | Ty::OptionBool => 1,
			Ty::Unit => 0,
			Ty::Compact { .. } => 1,
			Ty::Option(_) => 1,
			Ty::Result(a, b) => 1 + a.min_len_d(d + 1).min(b.min_len_d(d + 1)),
			Ty::Seq { .. } | Ty::Map(..) | Ty::Str | Ty::Bits { .. } => 1,
			Ty::Array(e, n) => e.min_len_d(d + 1) * n,
			Ty::Tuple(ts) => ts.iter().map(|t| t.min_len_d(d + 1)).sum(),
			Ty::Duration => 12,
			Ty::Ptr(t, _) => t.min_len_d(d + 1),
			Ty::Struct { fields, .. } =>
				fields.iter().filter_map(|f| f.wire.as_ref()).map(|t| t.min_len_d(d + 1)).sum(),
			Ty::Enum { variants, .. } => variants
				.iter()
				.filter(|v| !v.skipped)
				.map(|v| {
					1 + v
						.fields
						.iter()
						.filter_map(|f| f.wire.as_ref())
						.map(|t| t.min_len_d(d + 1))
						.sum::<usize>()
				})
				.min()
				.unwrap_or(0),
			Ty::Named(n) => resolve(n).min_len_d(d + 1),
		}
	}

	/// Largest possible encoded length, `None` when unbounded.
	pub fn max_len(&self) -> Option<usize> {
		self.max_len_d(0)
	}
	fn max_len_d(&self, d: u32) -> Option<usize> {
		if d > 12 {
			return None;
		}
		Some(match self {
			Ty::Int { bytes, .. } | Ty::NonZero { bytes, .. } => *bytes as usize,
			Ty::F32 => 4,
			Ty::F64 => 8,
			Ty::Bool | Ty::OptionBool => 1,
			Ty::Unit => 0,
			Ty::Compact { bits } => match bits {
				8 => 2,
				16 => 4,
				32 => 5,
				64 => 9,
				_ => 17,
			},
			Ty::Option(t) => 1 + t.max_len_d(d + 1)?,
			Ty::Result(a, b) => 1 + a.max_len_d(d + 1)?.max(b.max_len_d(d + 1)?),
			Ty::Seq { .. } | Ty::Map(..) | Ty::Str | Ty::Bits { .. } => return None,
			Ty::Array(e, n) => e.max_len_d(d + 1)? * n,
			Ty::Tuple(ts) => {
				let mut s = 0;
				for t in ts {
					s += t.max_len_d(d + 1)?;
				}
				s
			},
			Ty::Duration => 12,
			Ty::Ptr(t, _) => t.max_len_d(d + 1)?,
			Ty::Struct { fields, .. } => {
				let mut s = 0;
				for f in fields {
					if let Some(w) = &f.wire {
						s += w.max_len_d(d + 1)?;
					}
				}
				s
			},
			Ty::Enum { variants, .. } => {
				let mut m = 0;
				for v in variants.iter().filter(|v| !v.skipped) {
					let mut s = 1;
					for f in &v.fields {
						if let Some(w) = &f.wire {
							s += w.max_len_d(d + 1)?;
						}
					}
					m = m.max(s);
				}
				m
			},
			Ty::Named(n) => return resolve(n).max_len_d(d + 1),
		})
	}

	/// Does the type contain a count-prefixed container whose elements may encode to nothing?
	/// (Decoding such a container legitimately takes `count` steps whatever the input length.)
	pub fn has_zero_len_elem_seq(&self) -> bool {
		self.hz(0)
	}
	fn hz(&self, d: u32) -> bool {
		if d > 12 {
			return false;
		}
		match self {
			Ty::Seq { elem, .. } => elem.min_len() == 0 || elem.hz(d + 1),
			Ty::Map(k, v) => k.min_len() + v.min_len() == 0 || k.hz(d + 1) || v.hz(d + 1),
			Ty::Option(t) | Ty::Array(t, _) | Ty::Ptr(t, _) => t.hz(d + 1),
			Ty::Result(a, b) => a.hz(d + 1) || b.hz(d + 1),
			Ty::Tuple(ts) => ts.iter().any(|t| t.hz(d + 1)),
			Ty::Struct { fields, .. } => fields.iter().filter_map(|f| f.wire.as_ref()).any(|t| t.hz(d + 1)),
			Ty::Enum { variants, .. } => variants
				.iter()
				.any(|v| v.fields.iter().filter_map(|f| f.wire.as_ref()).any(|t| t.hz(d + 1))),
			Ty::Named(n) => resolve(n).hz(d + 1),
			_ => false,
		}
	}

	pub fn is_recursive_named(&self) -> bool {
		fn walk(t: &Ty) -> bool {
			match t {
				Ty::Named(_) => true,
				Ty::Seq { elem, .. } => walk(elem),
				Ty::Map(k, v) => walk(k) || walk(v),
				Ty::Option(t) | Ty::Array(t, _) | Ty::Ptr(t, _) => walk(t),
				Ty::Result(a, b) => walk(a) || walk(b),
				Ty::Tuple(ts) => ts.iter().any(walk),
				Ty::Struct { fields, .. } => fields.iter().any(|f| walk(&f.ty)),
				Ty::Enum { variants, .. } => variants.iter().any(|v| v.fields.iter().any(|f| walk(&f.ty))),
				_ => false,
			}
		}
		walk(self)
	}
}

// ------------------------------------------------------------------------------------------
// compact integers (the definition in property C04)

pub fn compact_encode(v: u128, out: &mut Vec<u8>) {
	if v < (1 << 6) {
		out.push((v as u8) << 2);
	} else if v < (1 << 14) {
		out.extend_from_slice(&(((v as u16) << 2) | 1).to_le_bytes());
	} else if v < (1 << 30) {
		out.extend_from_slice(&(((v as u32) << 2) | 2).to_le_bytes());
	} else {
		let mut n = 16;
		while n > 4 && (v >> (8 * (n - 1))) == 0 {
			n -= 1;
		}
		out.push((((n - 4) as u8) << 2) | 3);
		for i in 0..n {
			out.push((v >> (8 * i)) as u8);
		}
	}
}

pub fn compact_len(v: u128) -> usize {
	let mut o = Vec::new();
	compact_encode(v, &mut o);
	o.len()
}

/// Decode a compact integer of `bits` width from the start of `b`.
pub fn compact_decode(b: &[u8], bits: u8) -> Result<(u128, usize), Reject> {
	let first = *b.first().ok_or(Reject::Eof)?;
	let (v, used, lower_bound): (u128, usize, u128) = match first & 3 {
		0 => ((first >> 2) as u128, 1, 0),
		1 => {
			if b.len() < 2 {
				return Err(Reject::Eof);
			}
			((u16::from_le_bytes([b[0], b[1]]) >> 2) as u128, 2, 1 << 6)
		},
		2 => {
			if b.len() < 4 {
				return Err(Reject::Eof);
			}
			((u32::from_le_bytes([b[0], b[1], b[2], b[3]]) >> 2) as u128, 4, 1 << 14)
		},
		_ => {
			let n = (first >> 2) as usize + 4;
			if n > 16 || n * 8 > bits as usize {
				return Err(Reject::TooWide);
			}
			if b.len() < 1 + n {
				return Err(Reject::Eof);
			}
			let mut v = 0u128;
			for i in 0..n {
				v |= (b[1 + i] as u128) << (8 * i);
			}
			let lb = if n == 4 { 1u128 << 30 } else { 1u128 << (8 * (n - 1)) };
			(v, 1 + n, lb)
		},
	};
	if v < lower_bound {
		return Err(Reject::NonCanonical);
	}
	if bits < 128 && v >> bits != 0 {
		return Err(Reject::TooWide);
	}
	Ok((v, used))
}

// ------------------------------------------------------------------------------------------
// encoder

/// A count prefix inside an encoding (used to build hostile inputs).
#[derive(Clone, Debug)]
pub struct Mark {
	pub pos: usize,
	pub len: usize,
	pub count: u64,
	/// nesting level of the container (0 = outermost)
	pub level: u32,
	/// minimal encoded length of one element (0 = elements may be empty)
	pub elem_min_len: usize,
	pub what: &'static str,
}

pub struct Encoder {
	pub out: Vec<u8>,
	pub marks: Vec<Mark>,
	level: u32,
	/// padding bits to set in bit sequences (for "padding is ignored" inputs); normally false
	pub dirty_padding: bool,
	/// number of value nodes visited so far
	pub node: usize,
	/// inject one grammar-aware fault at this node (near-valid input generation)
	pub fault_node: Option<usize>,
	pub fault_rng: Option<Rng>,
	pub fault_desc: Option<&'static str>,
	/// record the output offset of every struct with this name (used to locate instrumented
	/// elements inside an encoding)
	pub watch_struct: Option<&'static str>,
	pub watch_positions: Vec<usize>,
}

pub fn spec_encode(ty: &Ty, v: &Val) -> Vec<u8> {
	let mut e = Encoder::new();
	e.enc(ty, v);
	e.out
}

pub fn spec_encode_marks(ty: &Ty, v: &Val) -> (Vec<u8>, Vec<Mark>) {
	let mut e = Encoder::new();
	e.enc(ty, v);
	(e.out, e.marks)
}

/// Encode `v` with exactly one injected grammar-aware fault (bad tag, zero for a non-zero
/// integer, nanoseconds >= 10^9, invalid UTF-8, unknown variant index, oversized bit count,
/// non-canonical or over-wide compact, inflated count). Returns the bytes and the fault's name,
/// or `None` if the chosen node has no applicable fault. Whether the result is in the language
/// is decided by [`spec_decode`], not assumed.
pub fn spec_encode_faulty(ty: &Ty, v: &Val, rng: &mut Rng) -> Option<(Vec<u8>, &'static str)> {
	let mut e = Encoder::new();
	e.enc(ty, v);
	let nodes = e.node;
	if nodes == 0 {
		return None;
	}
	for _ in 0..8 {
		let mut e = Encoder::new();
		e.fault_node = Some(rng.usize_below(nodes));
		e.fault_rng = Some(rng.fork(7));
		e.enc(ty, v);
		if let Some(d) = e.fault_desc {
			return Some((e.out, d));
		}
	}
	None
}

fn mismatch(ty: &Ty, v: &Val) -> ! {
	panic!("model: value {:?} does not match type {:?}", v, ty)
}

impl Encoder {
	pub fn new() -> Self {
		Encoder {
			out: Vec::new(),
			marks: Vec::new(),
			level: 0,
			dirty_padding: false,
			node: 0,
			fault_node: None,
			fault_rng: None,
			fault_desc: None,
			watch_struct: None,
			watch_positions: Vec::new(),
		}
	}

	/// Emit a faulty encoding for this node if one applies; true if something was emitted.
	fn try_fault(&mut self, ty: &Ty, v: &Val) -> bool {
		let mut rng = self.fault_rng.take().unwrap();
		let bad_tag = |rng: &mut Rng, lo: u64| rng.range(lo, 255) as u8;
		let done: Option<&'static str> = match (ty, v) {
			(Ty::Bool, _) => {
				self.out.push(bad_tag(&mut rng, 2));
				Some("bool-tag")
			},
			(Ty::Option(_), _) => {
				self.out.push(bad_tag(&mut rng, 2));
				Some("option-tag")
			},
			(Ty::Result(..), _) => {
				self.out.push(bad_tag(&mut rng, 2));
				Some("result-tag")
			},
			(Ty::OptionBool, _) => {
				self.out.push(bad_tag(&mut rng, 3));
				Some("optionbool-tag")
			},
			(Ty::NonZero { bytes, .. }, _) => {
				for _ in 0..*bytes {
					self.out.push(0);
				}
				Some("nonzero-zero")
			},
			(Ty::Duration, Val::Tuple(xs)) => {
				if let Val::Int(s) = &xs[0] {
					self.out.extend_from_slice(&(*s as u64).to_le_bytes());
				}
				let n = *rng.pick(&[1_000_000_000u32, 1_000_000_001, u32::MAX, 0x4000_0000]);
				let n = if rng.chance(1, 3) { rng.range(1_000_000_000, u32::MAX as u64) as u32 } else { n };
				self.out.extend_from_slice(&n.to_le_bytes());
				Some("duration-nanos")
			},
			(Ty::Str, Val::Str(s)) if !s.is_empty() => {
				self.count(s.len(), 1, "str");
				let mut b = s.as_bytes().to_vec();
				let i = rng.usize_below(b.len());
				b[i] = *rng.pick(&[0xffu8, 0xc0, 0x80, 0xfe, 0xf8]);
				self.out.extend_from_slice(&b);
				Some("str-utf8")
			},
			(Ty::Enum { variants, .. }, _) => {
				// an index naming no (non-skipped) variant
				let used: Vec<u8> = variants.iter().filter(|v| !v.skipped).map(|v| v.index).collect();
				let mut cand = None;
				for _ in 0..16 {
					let c = rng.byte();
					if !used.contains(&c) {
						cand = Some(c);
						break;
					}
				}
				match cand {
					Some(c) => {
						self.out.push(c);
						Some("enum-index")
					},
					None => None,
				}
			},
			(Ty::Bits { .. }, _) => {
				let n = *rng.pick(&[1u128 << 29, (1 << 29) + 7, (1 << 30), u32::MAX as u128]);
				compact_encode(n, &mut self.out);
				Some("bits-count")
			},
			(Ty::Compact { bits }, Val::Int(x)) => {
				let x = *x;
				match rng.below(3) {
					0 => {
						// non-minimal: one mode wider than needed
						if x < 1 << 6 {
							self.out.extend_from_slice(&(((x as u16) << 2) | 1).to_le_bytes());
						} else if x < 1 << 14 {
							self.out.extend_from_slice(&(((x as u32) << 2) | 2).to_le_bytes());
						} else {
							let mut n = 16usize;
							while n > 4 && (x >> (8 * (n - 1))) == 0 {
								n -= 1;
							}
							let n = (n + 1).min((*bits as usize / 8).max(4));
							self.out.push((((n - 4) as u8) << 2) | 3);
							for i in 0..n {
								self.out.push((x >> (8 * i)) as u8);
							}
						}
						Some("compact-nonminimal")
					},
					1 => {
						// big-integer mode with leading zero bytes
						let n = rng.range(4, (*bits as u64 / 8).max(4)) as usize;
						self.out.push((((n - 4) as u8) << 2) | 3);
						for i in 0..n {
							self.out.push(if 8 * i < 128 { (x >> (8 * i)) as u8 } else { 0 });
						}
						Some("compact-leading-zero")
					},
					_ => {
						// a value / length that does not fit the width
						let n = (*bits as usize / 8 + 1).max(4).min(67);
						self.out.push((((n - 4) as u8) << 2) | 3);
						for _ in 0..n {
							self.out.push(rng.byte() | 1);
						}
						Some("compact-overwide")
					},
				}
			},
			(Ty::Seq { elem, .. }, Val::Seq(xs)) => {
				let more = xs.len() as u128 + *rng.pick(&[1u128, 2, 64, 1 << 14, 1 << 30]);
				compact_encode(more.min(u32::MAX as u128), &mut self.out);
				self.level += 1;
				for x in xs {
					self.enc(elem, x);
				}
				self.level -= 1;
				Some("seq-count-inflated")
			},
			_ => None,
		};
		self.fault_desc = done;
		done.is_some()
	}

	fn count(&mut self, n: usize, elem_min_len: usize, what: &'static str) {
		let pos = self.out.len();
		compact_encode(n as u128, &mut self.out);
		self.marks.push(Mark {
			pos,
			len: self.out.len() - pos,
			count: n as u64,
			level: self.level,
			elem_min_len,
			what,
		});
	}

	fn fields(&mut self, fields: &[FieldTy], vals: &[Val]) {
		assert_eq!(fields.len(), vals.len(), "model: field count mismatch");
		for (f, v) in fields.iter().zip(vals) {
			if let Some(w) = &f.wire {
				self.enc(w, v);
			}
		}
	}

	pub fn enc(&mut self, ty: &Ty, v: &Val) {
		let here = self.node;
		self.node += 1;
		if self.fault_node == Some(here) && self.fault_rng.is_some() {
			if self.try_fault(ty, v) {
				return;
			}
		}
		match (ty, v) {
			(Ty::Int { bytes, .. }, Val::Int(x)) | (Ty::NonZero { bytes, .. }, Val::Int(x)) => {
				for i in 0..*bytes {
					self.out.push((x >> (8 * i as u32)) as u8);
				}
			},
			(Ty::F32, Val::Int(x)) => self.out.extend_from_slice(&(*x as u32).to_le_bytes()),
			(Ty::F64, Val::Int(x)) => self.out.extend_from_slice(&(*x as u64).to_le_bytes()),
			(Ty::Bool, Val::Bool(b)) => self.out.push(*b as u8),
			(Ty::Unit, Val::Unit) => {},
			(Ty::Compact { .. }, Val::Int(x)) => compact_encode(*x, &mut self.out),
			(Ty::Option(t), Val::Opt(o)) => match o {
				None => self.out.push(0),
				Some(x) => {
					self.out.push(1);
					self.enc(t, x);
				},
			},
			(Ty::Result(a, b), Val::Res(r)) => match r {
				Ok(x) => {
					self.out.push(0);
					self.enc(a, x);
				},
				Err(x) => {
					self.out.push(1);
					self.enc(b, x);
				},
			},
			(Ty::OptionBool, Val::OptBool(o)) => self.out.push(match o {
				None => 0,
				Some(true) => 1,
				Some(false) => 2,
			}),
			(Ty::Seq { elem, .. }, Val::Seq(xs)) => {
				self.count(xs.len(), elem.min_len(), "seq");
				self.level += 1;
				for x in xs {
					self.enc(elem, x);
				}
				self.level -= 1;
			},
			(Ty::Map(k, val), Val::Seq(xs)) => {
				self.count(xs.len(), k.min_len() + val.min_len(), "map");
				self.level += 1;
				for x in xs {
					match x {
						Val::Tuple(kv) if kv.len() == 2 => {
							self.enc(k, &kv[0]);
							self.enc(val, &kv[1]);
						},
						_ => mismatch(ty, v),
					}
				}
				self.level -= 1;
			},
			(Ty::Array(e, n), Val::Seq(xs)) => {
				assert_eq!(xs.len(), *n, "model: array length");
				for x in xs {
					self.enc(e, x);
				}
			},
			(Ty::Tuple(ts), Val::Tuple(xs)) => {
				assert_eq!(ts.len(), xs.len(), "model: tuple arity");
				for (t, x) in ts.iter().zip(xs) {
					self.enc(t, x);
				}
			},
			(Ty::Str, Val::Str(s)) => {
				self.count(s.len(), 1, "str");
				self.out.extend_from_slice(s.as_bytes());
			},
			(Ty::Bits { store_bytes, msb0, .. }, Val::Bits(bits)) => {
				let wbits = *store_bytes as usize * 8;
				self.count(bits.len(), 0, "bits");
				let words = (bits.len() + wbits - 1) / wbits;
				for w in 0..words {
					let mut word: u64 = 0;
					for p in 0..wbits {
						let i = w * wbits + p;
						let bit = if i < bits.len() { bits[i] } else { self.dirty_padding };
						if bit {
							let sh = if *msb0 { wbits - 1 - p } else { p };
							word |= 1u64 << sh;
						}
					}
					for i in 0..*store_bytes {
						self.out.push((word >> (8 * i as u32)) as u8);
					}
				}
			},
			(Ty::Duration, Val::Tuple(xs)) => match (&xs[0], &xs[1]) {
				(Val::Int(s), Val::Int(n)) => {
					self.out.extend_from_slice(&(*s as u64).to_le_bytes());
					self.out.extend_from_slice(&(*n as u32).to_le_bytes());
				},
				_ => mismatch(ty, v),
			},
			(Ty::Ptr(t, _), x) => self.enc(t, x),
			(Ty::Struct { fields, name }, Val::Tuple(xs)) => {
				if self.watch_struct == Some(name.as_str()) {
					self.watch_positions.push(self.out.len());
				}
				self.fields(fields, xs)
			},
			(Ty::Enum { variants, .. }, Val::Variant(i, xs)) => {
				let var = &variants[*i];
				if var.skipped {
					// by design: no bytes at all
					return;
				}
				self.out.push(var.index);
				self.fields(&var.fields, xs);
			},
			(Ty::Named(n), x) => self.enc(resolve(n), x),
			_ => mismatch(ty, v),
		}
	}
}

// ------------------------------------------------------------------------------------------
// decoder

pub struct Decoder<'a> {
	pub b: &'a [u8],
	pub pos: usize,
	/// remaining element-step budget
	pub budget: u64,
}

pub const DEFAULT_BUDGET: u64 = 1_000_000;

pub fn spec_decode(ty: &Ty, b: &[u8]) -> Result<(Val, usize), Reject> {
	let mut d = Decoder { b, pos: 0, budget: DEFAULT_BUDGET };
	let v = d.dec(ty)?;
	Ok((v, d.pos))
}

impl<'a> Decoder<'a> {
	fn take(&mut self, n: usize) -> Result<&'a [u8], Reject> {
		if self.b.len() - self.pos < n {
			return Err(Reject::Eof);
		}
		let s = &self.b[self.pos..self.pos + n];
		self.pos += n;
		Ok(s)
	}

	fn byte(&mut self) -> Result<u8, Reject> {
		Ok(self.take(1)?[0])
	}

	fn le(&mut self, n: usize) -> Result<u128, Reject> {
		let s = self.take(n)?;
		let mut v = 0u128;
		for (i, x) in s.iter().enumerate() {
			v |= (*x as u128) << (8 * i);
		}
		Ok(v)
	}

	fn compact(&mut self, bits: u8) -> Result<u128, Reject> {
		let (v, used) = compact_decode(&self.b[self.pos..], bits)?;
		self.pos += used;
		Ok(v)
	}

	fn step(&mut self, n: u64) -> Result<(), Reject> {
		if self.budget < n {
			return Err(Reject::Budget);
		}
		self.budget -= n;
		Ok(())
	}

	fn fields(&mut self, fields: &[FieldTy]) -> Result<Vec<Val>, Reject> {
		let mut out = Vec::with_capacity(fields.len());
		for f in fields {
			match &f.wire {
				Some(w) => out.push(self.dec(w)?),
				// placeholder; the bridge replaces skipped fields by `Default::default()`
				None => out.push(Val::Unit),
			}
		}
		Ok(out)
	}

	pub fn dec(&mut self, ty: &Ty) -> Result<Val, Reject> {
		self.step(1)?;
		Ok(match ty {
			Ty::Int { bytes, .. } => Val::Int(self.le(*bytes as usize)?),
			Ty::NonZero { bytes, .. } => {
				let v = self.le(*bytes as usize)?;
				if v == 0 {
					return Err(Reject::ZeroNonZero);
				}
				Val::Int(v)
			},
			Ty::F32 => Val::Int(self.le(4)?),
			Ty::F64 => Val::Int(self.le(8)?),
			Ty::Bool => match self.byte()? {
				0 => Val::Bool(false),
				1 => Val::Bool(true),
				_ => return Err(Reject::BadTag),
			},
			Ty::Unit => Val::Unit,
			Ty::Compact { bits } => Val::Int(self.compact(*bits)?),
			Ty::Option(t) => match self.byte()? {
				0 => Val::Opt(None),
				1 => Val::Opt(Some(Box::new(self.dec(t)?))),
				_ => return Err(Reject::BadTag),
			},
			Ty::Result(a, b) => match self.byte()? {
				0 => Val::Res(Ok(Box::new(self.dec(a)?))),
				1 => Val::Res(Err(Box::new(self.dec(b)?))),
				_ => return Err(Reject::BadTag),
			},
			Ty::OptionBool => match self.byte()? {
				0 => Val::OptBool(None),
				1 => Val::OptBool(Some(true)),
				2 => Val::OptBool(Some(false)),
				_ => return Err(Reject::BadTag),
			},
			Ty::Seq { elem, .. } => {
				let n = self.compact(32)? as usize;
				let min = elem.min_len();
				if min > 0 && (self.b.len() - self.pos) / min < n {
					return Err(Reject::Eof);
				}
				self.step(n as u64)?;
				let mut xs = Vec::with_capacity(n.min(1 << 16));
				for _ in 0..n {
					xs.push(self.dec(elem)?);
				}
				Val::Seq(xs)
			},
			Ty::Map(k, v) => {
				let n = self.compact(32)? as usize;
				let min = k.min_len() + v.min_len();
				if min > 0 && (self.b.len() - self.pos) / min < n {
					return Err(Reject::Eof);
				}
				self.step(n as u64)?;
				let mut xs = Vec::with_capacity(n.min(1 << 16));
				for _ in 0..n {
					let kk = self.dec(k)?;
					let vv = self.dec(v)?;
					xs.push(Val::Tuple(vec![kk, vv]));
				}
				Val::Seq(xs)
			},
			Ty::Array(e, n) => {
				let min = e.min_len();
				if min > 0 && (self.b.len() - self.pos) / min < *n {
					return Err(Reject::Eof);
				}
				self.step(*n as u64)?;
				let mut xs = Vec::with_capacity((*n).min(1 << 16));
				for _ in 0..*n {
					xs.push(self.dec(e)?);
				}
				Val::Seq(xs)
			},
			Ty::Tuple(ts) => {
				let mut xs = Vec::with_capacity(ts.len());
				for t in ts {
					xs.push(self.dec(t)?);
				}
				Val::Tuple(xs)
			},
			Ty::Str => {
				let n = self.compact(32)? as usize;
				let s = self.take(n)?;
				match core::str::from_utf8(s) {
					Ok(s) => Val::Str(s.to_string()),
					Err(_) => return Err(Reject::BadUtf8),
				}
			},
			Ty::Bits { store_bytes, msb0, .. } => {
				let n = self.compact(32)? as usize;
				if n > (1 << 29) - 1 {
					return Err(Reject::TooManyBits);
				}
				let wbits = *store_bytes as usize * 8;
				let words = (n + wbits - 1) / wbits;
				let raw = self.take(words * *store_bytes as usize)?;
				self.step((n / 64) as u64)?;
				let mut bits = Vec::with_capacity(n);
				for i in 0..n {
					let w = i / wbits;
					let p = i % wbits;
					let sh = if *msb0 { wbits - 1 - p } else { p };
					let byte = raw[w * *store_bytes as usize + sh / 8];
					bits.push((byte >> (sh % 8)) & 1 == 1);
				}
				Val::Bits(bits)
			},
			Ty::Duration => {
				let s = self.le(8)?;
				let n = self.le(4)?;
				if n >= 1_000_000_000 {
					return Err(Reject::Nanos);
				}
				Val::Tuple(vec![Val::Int(s), Val::Int(n)])
			},
			Ty::Ptr(t, _) => self.dec(t)?,
			Ty::Struct { fields, .. } => Val::Tuple(self.fields(fields)?),
			Ty::Enum { variants, .. } => {
				let idx = self.byte()?;
				match variants.iter().position(|v| !v.skipped && v.index == idx) {
					Some(i) => Val::Variant(i, self.fields(&variants[i].fields)?),
					None => return Err(Reject::BadVariant),
				}
			},
			Ty::Named(n) => self.dec(resolve(n))?,
		})
	}
}

// ------------------------------------------------------------------------------------------
// analyses over (type, value)

fn is_heap_container(ty: &Ty) -> bool {
	match ty {
		Ty::Seq { .. } | Ty::Map(..) | Ty::Str | Ty::Bits { .. } => true,
		Ty::Ptr(_, k) => matches!(k, PtrKind::Box | PtrKind::Rc | PtrKind::Arc),
		_ => false,
	}
}

/// `depth_hi`: longest chain of nested heap containers present in the value (empty ones count).
/// `depth_lo`: longest chain of nested *non-empty* containers whose contents are decoded element by
/// element, i.e. the number of container levels through which element decoders are entered.
/// Containers that are decoded as one block of plain numbers - strings, bit sequences, byte buffers
/// and vectors / deques / heaps of primitive integers or floats - are leaves: they count for
/// `depth_hi` only.
pub fn depths(ty: &Ty, v: &Val) -> (u32, u32) {
	depth_rec(ty, v)
}

/// a container decoded as one block of plain numbers
fn is_blob(ty: &Ty) -> bool {
	match ty {
		Ty::Str | Ty::Bits { .. } => true,
		Ty::Seq { elem, kind, .. } =>
			matches!(kind, SeqKind::Vec | SeqKind::Deque | SeqKind::Heap | SeqKind::Bytes | SeqKind::CowSlice) && matches!(**elem, Ty::Int { .. } | Ty::F32 | Ty::F64),
		_ => false,
	}
}

/// returns (chain incl. empty containers, chain of non-empty containers entered element by element)
fn depth_rec(ty: &Ty, v: &Val) -> (u32, u32) {
	let own = is_heap_container(ty) as u32;
	let mut hi = 0;
	let mut ne = 0;
	let mut nonempty = false;
	let child = |t: &Ty, x: &Val, hi: &mut u32, ne: &mut u32| {
		let (h, n) = depth_rec(t, x);
		*hi = (*hi).max(h);
		*ne = (*ne).max(n);
	};
	match (ty, v) {
		(Ty::Option(t), Val::Opt(Some(x))) => child(t, x, &mut hi, &mut ne),
		(Ty::Result(a, _), Val::Res(Ok(x))) => child(a, x, &mut hi, &mut ne),
		(Ty::Result(_, b), Val::Res(Err(x))) => child(b, x, &mut hi, &mut ne),
		(Ty::Seq { elem, .. }, Val::Seq(xs)) | (Ty::Array(elem, _), Val::Seq(xs)) => {
			nonempty = !xs.is_empty();
			for x in xs {
				child(elem, x, &mut hi, &mut ne);
			}
		},
		(Ty::Map(k, val), Val::Seq(xs)) => {
			nonempty = !xs.is_empty();
			for x in xs {
				if let Val::Tuple(kv) = x {
					child(k, &kv[0], &mut hi, &mut ne);
					child(val, &kv[1], &mut hi, &mut ne);
				}
			}
		},
		(Ty::Tuple(ts), Val::Tuple(xs)) =>
			for (t, x) in ts.iter().zip(xs) {
				child(t, x, &mut hi, &mut ne);
			},
		(Ty::Str, Val::Str(s)) => nonempty = !s.is_empty(),
		(Ty::Bits { .. }, Val::Bits(b)) => nonempty = !b.is_empty(),
		(Ty::Ptr(t, _), x) => {
			nonempty = true;
			child(t, x, &mut hi, &mut ne);
		},
		(Ty::Struct { fields, .. }, Val::Tuple(xs)) =>
			for (f, x) in fields.iter().zip(xs) {
				if let Some(w) = &f.wire {
					child(w, x, &mut hi, &mut ne);
				}
			},
		(Ty::Enum { variants, .. }, Val::Variant(i, xs)) =>
			for (f, x) in variants[*i].fields.iter().zip(xs) {
				if let Some(w) = &f.wire {
					child(w, x, &mut hi, &mut ne);
				}
			},
		(Ty::Named(n), x) => return depth_rec(resolve(n), x),
		_ => {},
	}
	let hi = hi + own;
	let ne = if own == 1 && nonempty && !is_blob(ty) {
		ne + 1
	} else {
		// not a container, an empty one (nothing is decoded inside it) or a block of plain numbers
		ne
	};
	(hi, ne)
}

/// Multiset-insensitive, order-insensitive comparison helper: sort a list of values by their
/// spec encodings.
pub fn sort_vals(elem: &Ty, xs: &mut Vec<Val>) {
	xs.sort_by_cached_key(|x| spec_encode(elem, x));
}

/// Short printable form for evidence samples / violation messages.
pub fn show_val(v: &Val) -> String {
	let s = format!("{:?}", v);
	if s.len() > 300 {
		let mut e = 300;
		while !s.is_char_boundary(e) {
			e -= 1;
		}
		format!("{}…(+{} chars)", &s[..e], s.len() - e)
	} else {
		s
	}
}

pub fn hex(b: &[u8]) -> String {
	let mut s = String::with_capacity(b.len() * 2);
	for x in b.iter().take(4096) {
		s.push_str(&format!("{:02x}", x));
	}
	if b.len() > 4096 {
		s.push_str(&format!("…(+{} bytes)", b.len() - 4096));
	}
	s
}

pub fn unhex(s: &str) -> Vec<u8> {
	let s = s.as_bytes();
	let mut v = Vec::with_capacity(s.len() / 2);
	let d = |c: u8| match c {
		b'0'..=b'9' => c - b'0',
		b'a'..=b'f' => c - b'a' + 10,
		b'A'..=b'F' => c - b'A' + 10,
		_ => panic!("bad hex"),
	};
	for p in s.chunks(2) {
		v.push(d(p[0]) << 4 | d(p[1]));
	}
	v
}

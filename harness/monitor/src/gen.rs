//! Workload generators: boundary-biased values for a model type, and hostile byte strings
//! (mutations of valid encodings, count tampering, near-valid strings, random strings).

use crate::model::*;
use crate::rng::Rng;

pub struct Gen<'r> {
	pub rng: &'r mut Rng,
	/// soft cap on the number of value nodes still to be generated
	pub budget: i64,
	/// maximum length for ordinary sequences
	pub max_len: usize,
	/// allow the rare long sequences (16 KiB window straddling)
	pub allow_big: bool,
	/// never choose skipped enum variants (they have no encoding)
	pub no_skipped_variants: bool,
}

const SMALL_LENS: [usize; 12] = [0, 0, 1, 1, 2, 2, 3, 4, 5, 7, 8, 16];
const EDGE_LENS: [usize; 6] = [63, 64, 65, 31, 32, 33];

impl<'r> Gen<'r> {
	pub fn new(rng: &'r mut Rng) -> Self {
		Gen { rng, budget: 400, max_len: 70, allow_big: true, no_skipped_variants: true }
	}

	pub fn small(rng: &'r mut Rng) -> Self {
		Gen { rng, budget: 60, max_len: 8, allow_big: false, no_skipped_variants: true }
	}

	pub fn int_bits(&mut self, bits: u32) -> u128 {
		let m = if bits >= 128 { u128::MAX } else { (1u128 << bits) - 1 };
		let r = &mut *self.rng;
		let v = match r.below(12) {
			0 => 0,
			1 => 1,
			2 => m,
			3 => m >> 1,          // signed MAX
			4 => (m >> 1) + 1,    // signed MIN
			5 => m - 1,
			6 => {
				let k = r.below(bits as u64) as u32;
				1u128 << k
			},
			7 => {
				let k = r.below(bits as u64) as u32;
				(1u128 << k).wrapping_sub(1)
			},
			8 => {
				let k = r.below(bits as u64) as u32;
				(1u128 << k).wrapping_add(1)
			},
			9 => {
				// few significant bits
				let k = r.range(1, bits as u64) as u32;
				let x = r.next_u128();
				if k >= 128 {
					x
				} else {
					x & ((1u128 << k) - 1)
				}
			},
			_ => r.next_u128(),
		};
		v & m
	}

	pub fn compact(&mut self, bits: u32) -> u128 {
		let m = if bits >= 128 { u128::MAX } else { (1u128 << bits) - 1 };
		let r = &mut *self.rng;
		let v = match r.below(8) {
			0 => *r.pick(&[0u128, 1, 63, 64, 65, 16383, 16384, 16385, (1 << 30) - 1, 1 << 30, (1 << 30) + 1]),
			1 => *r.pick(&[(1u128 << 32) - 1, 1 << 32, (1 << 32) + 1, 255, 256, 65535, 65536]),
			2 => {
				// byte-length edges of the big-integer mode
				let k = r.range(4, 16) as u32;
				let base = if k * 8 >= 128 { u128::MAX } else { (1u128 << (8 * k)) - 1 };
				match r.below(3) {
					0 => base,
					1 => base.wrapping_add(1),
					_ => base.wrapping_sub(r.below(4096) as u128),
				}
			},
			3 => m,
			4 => m - (r.below(300) as u128).min(m),
			_ => {
				let k = r.range(1, bits as u64) as u32;
				let x = r.next_u128();
				if k >= 128 {
					x
				} else {
					x & ((1u128 << k) - 1)
				}
			},
		};
		v & m
	}

	fn float_bits(&mut self, double: bool) -> u128 {
		let r = &mut *self.rng;
		if double {
			(match r.below(8) {
				0 => 0u64,
				1 => 0x8000_0000_0000_0000,
				2 => 0x7ff8_0000_0000_0000,
				3 => 0x7ff0_0000_0000_0001, // signalling NaN
				4 => 0xfff0_0000_0000_0000,
				5 => 1, // subnormal
				_ => r.next_u64(),
			}) as u128
		} else {
			(match r.below(8) {
				0 => 0u32,
				1 => 0x8000_0000,
				2 => 0x7fc0_0000,
				3 => 0x7f80_0001,
				4 => 0xff80_0000,
				5 => 1,
				_ => r.next_u64() as u32,
			}) as u128
		}
	}

	pub fn seq_len(&mut self, elem_cost_small: bool, elem_mem: usize) -> usize {
		if self.budget <= 0 {
			return 0;
		}
		let r = &mut *self.rng;
		let roll = r.below(100);
		let n = if roll < 70 {
			*r.pick(&SMALL_LENS)
		} else if roll < 90 {
			r.usize_below(self.max_len + 1)
		} else if roll < 97 || !elem_cost_small {
			*r.pick(&EDGE_LENS)
		} else if self.allow_big {
			// compact-mode edge of the count, and the 16 KiB preallocation window
			let per = if elem_mem == 0 { 16384 } else { (16384 / elem_mem).max(1) };
			let k = r.range(1, 3) as usize;
			let d = r.range(0, 2) as isize - 1;
			let window = ((k * per) as isize + d).max(0) as usize;
			*r.pick(&[16383usize, 16384, 16385, window, window, window])
		} else {
			*r.pick(&EDGE_LENS)
		};
		let cap = if elem_cost_small {
			if self.allow_big {
				3 * 16384 + 2
			} else {
				self.max_len.max(65)
			}
		} else if self.allow_big {
			self.max_len.max(65)
		} else {
			// small mode: composite elements never exceed the configured maximum
			self.max_len
		};
		n.min(cap)
	}

	fn string(&mut self) -> String {
		let r = &mut *self.rng;
		if self.allow_big && r.below(40) == 0 {
			// a long string with a multi-byte character sitting across a 16 KiB boundary of its bytes
			let m = 1 + r.usize_below(3);
			let j = r.usize_below(4);
			let mut s = String::with_capacity(16384 * m + 128);
			for i in 0..16384 * m - j {
				s.push((b'a' + (i % 26) as u8) as char);
			}
			s.push(*r.pick(&['é', '€', '😀', '\u{10FFFF}']));
			for _ in 0..r.usize_below(100) {
				s.push(*r.pick(&['x', 'é', '€', '😀']));
			}
			return s;
		}
		let n = match r.below(10) {
			0 => 0,
			1..=6 => r.usize_below(8),
			7 => *r.pick(&[63usize, 64, 65]),
			_ => r.usize_below(40),
		};
		let mut s = String::new();
		for _ in 0..n {
			let c = match r.below(8) {
				0 => 'é',
				1 => '€',
				2 => '😀',
				3 => '\u{0}',
				4 => '\u{10FFFF}',
				_ => (b'a' + r.below(26) as u8) as char,
			};
			s.push(c);
		}
		s
	}

	fn fields(&mut self, fields: &[FieldTy], depth: u32) -> Vec<Val> {
		fields
			.iter()
			.map(|f| match &f.wire {
				Some(w) => self.val_d(w, depth + 1),
				None => Val::Unit,
			})
			.collect()
	}

	pub fn val(&mut self, ty: &Ty) -> Val {
		self.val_d(ty, 0)
	}

	fn val_d(&mut self, ty: &Ty, depth: u32) -> Val {
		self.budget -= 1;
		let exhausted = self.budget <= 0 || depth > 40;
		match ty {
			Ty::Int { bytes, .. } => Val::Int(self.int_bits(*bytes as u32 * 8)),
			Ty::NonZero { bytes, .. } => {
				let v = self.int_bits(*bytes as u32 * 8);
				Val::Int(if v == 0 { 1 } else { v })
			},
			Ty::F32 => Val::Int(self.float_bits(false)),
			Ty::F64 => Val::Int(self.float_bits(true)),
			Ty::Bool => Val::Bool(self.rng.chance(1, 2)),
			Ty::Unit => Val::Unit,
			Ty::Compact { bits } => Val::Int(self.compact(*bits as u32)),
			Ty::Option(t) =>
				if exhausted || self.rng.chance(1, 3) {
					Val::Opt(None)
				} else {
					Val::Opt(Some(Box::new(self.val_d(t, depth + 1))))
				},
			Ty::Result(a, b) =>
				if self.rng.chance(1, 2) {
					Val::Res(Ok(Box::new(self.val_d(a, depth + 1))))
				} else {
					Val::Res(Err(Box::new(self.val_d(b, depth + 1))))
				},
			Ty::OptionBool => Val::OptBool(match self.rng.below(3) {
				0 => None,
				1 => Some(true),
				_ => Some(false),
			}),
			Ty::Seq { elem, elem_mem, .. } => {
				// elements that are cheap to generate in bulk: primitives, and small fixed-size
				// composites of them (arrays / tuples / small structs), so that multi-chunk lengths are
				// reached for element sizes that do not divide the 16 KiB window too
				let cheap = matches!(**elem, Ty::Int { .. } | Ty::F32 | Ty::F64 | Ty::Bool | Ty::Unit) ||
					(self.allow_big && elem.max_len().map_or(false, |m| m <= 8) && elem.min_len() >= 1 && !elem.is_recursive_named());
				let n = if exhausted { 0 } else { self.seq_len(cheap, *elem_mem) };
				let n = if cheap { n } else { n.min(self.budget.max(0) as usize) };
				if cheap {
					// do not let long primitive runs eat the node budget
					self.budget += 1;
					let save = self.budget;
					let xs = (0..n).map(|_| self.val_d(elem, depth + 1)).collect();
					self.budget = save - (n as i64 / 64);
					Val::Seq(xs)
				} else {
					Val::Seq((0..n).map(|_| self.val_d(elem, depth + 1)).collect())
				}
			},
			Ty::Map(k, v) => {
				let n = if exhausted { 0 } else { self.seq_len(false, 0).min(self.budget.max(0) as usize) };
				Val::Seq(
					(0..n)
						.map(|_| {
							let kk = self.val_d(k, depth + 1);
							let vv = self.val_d(v, depth + 1);
							Val::Tuple(vec![kk, vv])
						})
						.collect(),
				)
			},
			Ty::Array(e, n) => Val::Seq((0..*n).map(|_| self.val_d(e, depth + 1)).collect()),
			Ty::Tuple(ts) => Val::Tuple(ts.iter().map(|t| self.val_d(t, depth + 1)).collect()),
			Ty::Str => Val::Str(self.string()),
			Ty::Bits { store_bytes, .. } => {
				let r = &mut *self.rng;
				let w = *store_bytes as usize * 8;
				let n = match r.below(10) {
					0 => 0,
					1..=4 => r.usize_below(131),
					5 => *r.pick(&[w - 1, w, w + 1, 2 * w - 1, 2 * w, 2 * w + 1]),
					6 => *r.pick(&[63usize, 64, 65, 511, 512, 513]),
					7 if self.allow_big => *r.pick(&[16383usize, 16384, 16385, 16384 * 8 - 1, 16384 * 8, 16384 * 8 + 1, 16384 * 8 + w]),
					_ => r.usize_below(40),
				};
				let mut bits = Vec::with_capacity(n);
				let mut word = 0u64;
				for i in 0..n {
					if i % 64 == 0 {
						word = r.next_u64();
					}
					bits.push((word >> (i % 64)) & 1 == 1);
				}
				Val::Bits(bits)
			},
			Ty::Duration => {
				let s = self.int_bits(64);
				let n = match self.rng.below(5) {
					0 => 0,
					1 => 999_999_999,
					2 => 1,
					_ => self.rng.below(1_000_000_000),
				};
				Val::Tuple(vec![Val::Int(s), Val::Int(n as u128)])
			},
			Ty::Ptr(t, _) => self.val_d(t, depth + 1),
			Ty::Struct { fields, .. } => Val::Tuple(self.fields(fields, depth)),
			Ty::Enum { variants, .. } => {
				let mut cands: Vec<usize> = (0..variants.len())
					.filter(|i| !(self.no_skipped_variants && variants[*i].skipped))
					.collect();
				if cands.is_empty() {
					panic!("gen: enum without encodable variants");
				}
				if exhausted {
					// prefer variants that do not recurse
					let flat: Vec<usize> = cands
						.iter()
						.copied()
						.filter(|i| !variants[*i].fields.iter().any(|f| f.ty.is_recursive_named()))
						.collect();
					if !flat.is_empty() {
						cands = flat;
					}
				}
				let i = *self.rng.pick(&cands);
				Val::Variant(i, self.fields(&variants[i].fields, depth))
			},
			Ty::Named(n) => self.val_d(resolve(n), depth + 1),
		}
	}
}

// ------------------------------------------------------------------------------------------
// byte string mutation

pub const SPECIAL_BYTES: [u8; 11] = [0, 1, 2, 3, 4, 0x7f, 0x80, 0xfc, 0xfd, 0xfe, 0xff];

/// Alternative encodings of a count: changed counts, and non-minimal / over-wide encodings of the
/// same count.
pub fn tampered_count(count: u64, rng: &mut Rng) -> Vec<u8> {
	let mut o = Vec::new();
	match rng.below(12) {
		0 => compact_encode(count as u128 + 1, &mut o),
		1 => compact_encode(count.saturating_sub(1) as u128, &mut o),
		2 => compact_encode(1 << 14, &mut o),
		3 => compact_encode(1 << 30, &mut o),
		4 => compact_encode(1 << 31, &mut o),
		5 => compact_encode(u32::MAX as u128, &mut o),
		6 => compact_encode(count as u128 + *rng.pick(&[2u128, 63, 64, 1000, 16384]), &mut o),
		7 => {
			// non-minimal two-byte / four-byte mode
			if count < 1 << 14 && rng.chance(1, 2) {
				o.extend_from_slice(&(((count as u16) << 2) | 1).to_le_bytes());
			} else if count < 1 << 30 {
				o.extend_from_slice(&(((count as u32) << 2) | 2).to_le_bytes());
			} else {
				compact_encode(count as u128, &mut o);
			}
		},
		8 => {
			// big-integer mode, 4 bytes, value possibly < 2^30
			o.push(3);
			o.extend_from_slice(&(count as u32).to_le_bytes());
		},
		9 => {
			// over-wide: 5..8 byte big-integer mode
			let n = rng.range(5, 8) as usize;
			o.push((((n - 4) as u8) << 2) | 3);
			for i in 0..n {
				o.push((count >> (8 * i)) as u8);
			}
		},
		10 => compact_encode(rng.below(1 << 32) as u128, &mut o),
		_ => compact_encode((count as u128) * 2 + 1, &mut o),
	}
	o
}

/// One random mutation of `b` (a valid encoding with count-prefix `marks`), possibly spliced with
/// `other`.
pub fn mutate(b: &[u8], marks: &[Mark], other: &[u8], rng: &mut Rng) -> (Vec<u8>, &'static str) {
	let mut v = b.to_vec();
	let kind = rng.below(if marks.is_empty() { 8 } else { 11 });
	match kind {
		0 if !v.is_empty() => {
			let i = rng.usize_below(v.len());
			v[i] ^= 1 << rng.below(8);
			(v, "bitflip")
		},
		1 if !v.is_empty() => {
			let i = rng.usize_below(v.len());
			v[i] = *rng.pick(&SPECIAL_BYTES);
			(v, "special-byte")
		},
		2 if !v.is_empty() => {
			let cut = rng.usize_below(v.len());
			v.truncate(cut);
			(v, "truncate")
		},
		3 => {
			let n = rng.range(1, 9) as usize;
			v.extend_from_slice(&rng.bytes(n));
			(v, "extend")
		},
		4 => {
			let a = rng.usize_below(v.len() + 1);
			let c = rng.usize_below(other.len() + 1);
			v.truncate(a);
			v.extend_from_slice(&other[c..]);
			(v, "splice")
		},
		5 if !v.is_empty() => {
			let i = rng.usize_below(v.len());
			v.remove(i);
			(v, "delete-byte")
		},
		6 => {
			let i = rng.usize_below(v.len() + 1);
			v.insert(i, if rng.chance(1, 2) { *rng.pick(&SPECIAL_BYTES) } else { rng.byte() });
			(v, "insert-byte")
		},
		7 if !v.is_empty() => {
			// several flips
			for _ in 0..rng.range(2, 4) {
				let i = rng.usize_below(v.len());
				v[i] = rng.byte();
			}
			(v, "multi-byte")
		},
		8 | 9 | 10 if !marks.is_empty() => {
			let m = rng.pick(marks);
			let t = tampered_count(m.count, rng);
			let mut o = v[..m.pos].to_vec();
			o.extend_from_slice(&t);
			o.extend_from_slice(&v[m.pos + m.len..]);
			(o, "count-tamper")
		},
		_ => {
			v.push(rng.byte());
			(v, "extend")
		},
	}
}

/// Random strings biased towards structure-looking bytes.
pub fn random_bytes(rng: &mut Rng, max_len: usize) -> Vec<u8> {
	let n = match rng.below(10) {
		0 => 0,
		1..=5 => rng.usize_below(12.min(max_len + 1)),
		6..=8 => rng.usize_below(max_len.min(64) + 1),
		_ => rng.usize_below(max_len + 1),
	};
	let mut v = Vec::with_capacity(n);
	for _ in 0..n {
		v.push(match rng.below(4) {
			0 => *rng.pick(&SPECIAL_BYTES),
			1 => (rng.below(8) as u8) << 2, // small compact counts
			_ => rng.byte(),
		});
	}
	v
}

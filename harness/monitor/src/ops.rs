//! Type table: one erased record per universe type, instantiated once per type. The monitors are
//! ordinary non-generic code iterating over `&[TypeOps]` and comparing at the `Val` level.

use crate::bridge::{Heap, Modelled};
use crate::model::{Ty, Val};
use crate::spy::{Dyn, ShortWriter, SpyOutput};
use parity_scale_codec::{
	Decode, DecodeAll, DecodeLength, DecodeLimit, DecodeWithMemLimit, DecodeWithMemTracking, Encode, Error,
	Input, MaxEncodedLen, Output,
};
use std::cell::Cell;

/// Everything the encoding entry points produced for one value.
pub struct EncReport {
	pub encode: Vec<u8>,
	/// `encode_to(&mut Vec<u8>)` into a vector that already held [`ENC_PREFIX`]
	pub to_vec: Vec<u8>,
	/// `encode_to(&mut dyn Output)`
	pub to_dyn: SpyOutput,
	/// `encode_to` into a short-writing `io::Write` sink
	pub to_io: Vec<u8>,
	pub io_calls: u64,
	/// `using_encoded(|b| b.to_vec())`
	pub using: Vec<u8>,
	pub size: usize,
	pub hint: usize,
}

pub const ENC_PREFIX: &[u8] = &[0xAA, 0xBB, 0xCC];

fn enc_all<T: Modelled + Encode>(v: &Val, seed: u64) -> EncReport {
	let x = T::from_val(v);
	enc_all_of(&x, seed)
}

pub fn enc_all_of<E: Encode + ?Sized>(x: &E, seed: u64) -> EncReport {
	let encode = x.encode();
	let mut to_vec = ENC_PREFIX.to_vec();
	x.encode_to(&mut to_vec);
	let mut spy = SpyOutput::default();
	{
		let d: &mut dyn Output = &mut spy;
		x.encode_to(d);
	}
	let mut io = ShortWriter::new(seed);
	x.encode_to(&mut io);
	let using = x.using_encoded(|b| b.to_vec());
	let size = x.encoded_size();
	let hint = x.size_hint();
	EncReport { encode, to_vec, to_dyn: spy, to_io: io.data, io_calls: io.calls, using, size, hint }
}

fn enc_plain<T: Modelled + Encode>(v: &Val) -> Vec<u8> {
	T::from_val(v).encode()
}

fn canon<T: Modelled>(v: &Val) -> Val {
	T::from_val(v).to_val()
}

fn heap_of<T: Modelled>(v: &Val) -> Heap {
	let x = T::from_val(v);
	let mut h = Heap::default();
	x.heap(&mut h);
	h
}

thread_local! {
	/// remaining length seen by the last [`Probe`] decode (`usize::MAX` = unknown)
	pub static PROBE_REMAINING: Cell<usize> = const { Cell::new(usize::MAX) };
}

/// Zero-byte decodable that records `remaining_len()` of whatever input it is decoded from; used
/// to observe the position of inputs the harness cannot look into (`BytesCursor`).
pub struct Probe;

impl Decode for Probe {
	fn decode<I: Input>(input: &mut I) -> Result<Self, Error> {
		let r = input.remaining_len()?.unwrap_or(usize::MAX);
		PROBE_REMAINING.with(|p| p.set(r));
		Ok(Probe)
	}
}

fn dec_slice<T: Modelled + Decode>(b: &[u8]) -> (Option<Val>, usize) {
	let mut s = b;
	let r = T::decode(&mut s);
	(r.ok().map(|x| x.to_val()), b.len() - s.len())
}

fn dec_dyn<T: Modelled + Decode>(i: &mut dyn Input) -> Option<Val> {
	T::decode(&mut Dyn(i)).ok().map(|x| x.to_val())
}

fn dec_keep<T: Modelled + Decode>(i: &mut dyn Input) -> Option<Box<dyn core::any::Any>>
where
	T: 'static,
{
	T::decode(&mut Dyn(i)).ok().map(|x| Box::new(x) as Box<dyn core::any::Any>)
}

/// `decode_from_bytes` (the shared-buffer input with its zero-copy path): value + bytes consumed.
fn dec_bytes<T: Modelled + Decode>(b: Vec<u8>) -> Option<(Val, usize)> {
	let total = b.len();
	PROBE_REMAINING.with(|p| p.set(usize::MAX));
	let r = parity_scale_codec::decode_from_bytes::<(T, Probe)>(bytes::Bytes::from(b));
	r.ok().map(|(x, _)| {
		let rem = PROBE_REMAINING.with(|p| p.get());
		(x.to_val(), total - rem)
	})
}

fn bytes_keep<T: Decode + 'static>(b: Vec<u8>) -> Option<Box<dyn core::any::Any>> {
	parity_scale_codec::decode_from_bytes::<T>(bytes::Bytes::from(b)).ok().map(|x| Box::new(x) as Box<dyn core::any::Any>)
}

/// `T::decode` directly over `CountedInput<SpyInput>` (no type erasure in between, so the
/// `Input` methods that are not object safe take their real path): (ok, count(), spy).
fn counted_direct<T: Decode>(b: &[u8], start: u64) -> (bool, u64, u64, usize) {
	let mut spy = crate::spy::SpyInput::new(b);
	let (ok, count) = {
		#[cfg(psc_verif)]
		let mut c = parity_scale_codec::CountedInput::verif_with_count(&mut spy, start);
		#[cfg(not(psc_verif))]
		let mut c = {
			let _ = start;
			parity_scale_codec::CountedInput::new(&mut spy)
		};
		let r = T::decode(&mut c);
		(r.is_ok(), c.count())
	};
	(ok, count, spy.delivered, spy.pos)
}

/// `T::decode` over `CountedInput<&[u8]>`: (ok, count(), bytes the slice has given up)
fn counted_slice<T: Decode>(b: &[u8]) -> (bool, u64, usize) {
	let mut s = b;
	let (ok, count) = {
		let mut c = parity_scale_codec::CountedInput::new(&mut s);
		let r = T::decode(&mut c);
		(r.is_ok(), c.count())
	};
	(ok, count, b.len() - s.len())
}

// A zero-sized `Input` type (its state lives in a thread-local): whatever the decoder derives from
// the *type* of its input must not matter. It does not know its remaining length.
thread_local! {
	static ZST_INPUT: core::cell::RefCell<(Vec<u8>, usize, u64)> = const { core::cell::RefCell::new((Vec::new(), 0, 0)) };
}

pub struct ZstInput;

/// load the bytes the next `ZstInput` decodes from (done outside any allocation bracket)
pub fn zst_input_load(b: &[u8]) {
	ZST_INPUT.with(|z| {
		let mut z = z.borrow_mut();
		z.0.clear();
		z.0.extend_from_slice(b);
		z.1 = 0;
		z.2 = 0;
	});
}

/// (position, bytes delivered) of the thread's `ZstInput`
pub fn zst_input_state() -> (usize, u64) {
	ZST_INPUT.with(|z| {
		let z = z.borrow();
		(z.1, z.2)
	})
}

impl Input for ZstInput {
	fn remaining_len(&mut self) -> Result<Option<usize>, parity_scale_codec::Error> {
		Ok(None)
	}
	fn read(&mut self, into: &mut [u8]) -> Result<(), parity_scale_codec::Error> {
		ZST_INPUT.with(|z| {
			let mut z = z.borrow_mut();
			let pos = z.1;
			if into.len() > z.0.len() - pos {
				return Err("zst input: end of data".into());
			}
			into.copy_from_slice(&z.0[pos..pos + into.len()]);
			z.1 += into.len();
			z.2 += into.len() as u64;
			Ok(())
		})
	}
}

/// `T::decode` directly over the zero-sized input type (bytes loaded with [`zst_input_load`])
fn zst_keep<T: Decode + 'static>() -> Option<Box<dyn core::any::Any>> {
	T::decode(&mut ZstInput).ok().map(|x| Box::new(x) as Box<dyn core::any::Any>)
}

fn zst_val<T: Modelled + Decode>() -> Option<Val> {
	T::decode(&mut ZstInput).ok().map(|x| x.to_val())
}

fn skip_dyn<T: Decode>(i: &mut dyn Input) -> bool {
	T::skip(&mut Dyn(i)).is_ok()
}

fn dec_all<T: Modelled + Decode>(b: &[u8]) -> Option<Val> {
	let mut s = b;
	T::decode_all(&mut s).ok().map(|x| x.to_val())
}

fn dec_depth_slice<T: Modelled + Decode>(limit: u32, b: &[u8]) -> (Option<Val>, usize) {
	let mut s = b;
	let r = T::decode_with_depth_limit(limit, &mut s);
	(r.ok().map(|x| x.to_val()), b.len() - s.len())
}

fn dec_all_depth<T: Modelled + Decode>(limit: u32, b: &[u8]) -> Option<Val> {
	let mut s = b;
	T::decode_all_with_depth_limit(limit, &mut s).ok().map(|x| x.to_val())
}

fn dec_mem_slice<T: Modelled + DecodeWithMemTracking>(b: &[u8], limit: usize) -> (Option<Val>, usize) {
	let mut s = b;
	let r = T::decode_with_mem_limit(&mut s, limit);
	(r.ok().map(|x| x.to_val()), b.len() - s.len())
}

fn fixed<T: Decode>() -> Option<usize> {
	T::encoded_fixed_size()
}

fn len_of<T: DecodeLength>(b: &[u8]) -> Option<usize> {
	T::len(b).ok()
}

fn mel<T: MaxEncodedLen>() -> usize {
	T::max_encoded_len()
}

#[derive(Clone)]
pub struct DecOps {
	/// native `T::decode(&mut &[u8])`: (value, bytes consumed)
	pub slice: fn(&[u8]) -> (Option<Val>, usize),
	/// `T::decode` over any input stack (through the erasing [`Dyn`])
	pub dynamic: fn(&mut dyn Input) -> Option<Val>,
	/// like `dynamic` but hands back the decoded object itself (kept alive by the caller)
	pub keep: fn(&mut dyn Input) -> Option<Box<dyn core::any::Any>>,
	pub bytes: fn(Vec<u8>) -> Option<(Val, usize)>,
	/// `decode_from_bytes`, handing back the decoded object
	pub bytes_keep: fn(Vec<u8>) -> Option<Box<dyn core::any::Any>>,
	pub skip: fn(&mut dyn Input) -> bool,
	/// direct (monomorphic) decode through `CountedInput<SpyInput>` started at the given count:
	/// (ok, count(), bytes the spy delivered, spy position)
	pub counted: fn(&[u8], u64) -> (bool, u64, u64, usize),
	/// the same over the library's own slice input: (ok, count(), bytes the slice advanced by)
	pub counted_slice: fn(&[u8]) -> (bool, u64, usize),
	/// decode over the zero-sized input type [`ZstInput`]: the object itself / its value
	pub zst_keep: fn() -> Option<Box<dyn core::any::Any>>,
	pub zst_val: fn() -> Option<Val>,
	pub all: fn(&[u8]) -> Option<Val>,
	pub depth_slice: fn(u32, &[u8]) -> (Option<Val>, usize),
	pub all_depth: fn(u32, &[u8]) -> Option<Val>,
	pub fixed: fn() -> Option<usize>,
}

#[derive(Clone)]
pub struct TypeOps {
	pub name: &'static str,
	pub ty: Ty,
	pub mem_size: usize,
	pub enc: fn(&Val, u64) -> EncReport,
	pub enc_plain: fn(&Val) -> Vec<u8>,
	/// `T::from_val(v).to_val()`: the value as the real type represents it (sets deduplicated,
	/// heaps ordered, skipped fields defaulted)
	pub canon: fn(&Val) -> Val,
	pub heap: fn(&Val) -> Heap,
	pub dec: Option<DecOps>,
	/// native `decode_with_mem_limit` (only for `DecodeWithMemTracking` types)
	pub mem_slice: Option<fn(&[u8], usize) -> (Option<Val>, usize)>,
	pub mel: Option<fn() -> usize>,
	pub cel: bool,
	pub len_of: Option<fn(&[u8]) -> Option<usize>>,
	/// free-form tags: "prim-seq", "bulk", "recursive", ...
	pub tags: Vec<&'static str>,
}

impl TypeOps {
	pub fn encode_only<T: Modelled + Encode>(name: &'static str) -> Self {
		TypeOps {
			name,
			ty: T::ty(),
			mem_size: core::mem::size_of::<T>(),
			enc: enc_all::<T>,
			enc_plain: enc_plain::<T>,
			canon: canon::<T>,
			heap: heap_of::<T>,
			dec: None,
			mem_slice: None,
			mel: None,
			cel: false,
			len_of: None,
			tags: Vec::new(),
		}
	}

	pub fn codec<T: Modelled + Encode + Decode + 'static>(name: &'static str) -> Self {
		let mut o = Self::encode_only::<T>(name);
		o.dec = Some(DecOps {
			slice: dec_slice::<T>,
			dynamic: dec_dyn::<T>,
			keep: dec_keep::<T>,
			bytes: dec_bytes::<T>,
			bytes_keep: bytes_keep::<T>,
			skip: skip_dyn::<T>,
			counted: counted_direct::<T>,
			counted_slice: counted_slice::<T>,
			zst_keep: zst_keep::<T>,
			zst_val: zst_val::<T>,
			all: dec_all::<T>,
			depth_slice: dec_depth_slice::<T>,
			all_depth: dec_all_depth::<T>,
			fixed: fixed::<T>,
		});
		o
	}

	pub fn full<T: Modelled + Encode + DecodeWithMemTracking + 'static>(name: &'static str) -> Self {
		let mut o = Self::codec::<T>(name);
		o.mem_slice = Some(dec_mem_slice::<T>);
		o
	}

	pub fn with_mel<T: MaxEncodedLen>(mut self) -> Self {
		self.mel = Some(mel::<T>);
		self
	}

	pub fn with_cel<T: parity_scale_codec::ConstEncodedLen>(mut self) -> Self {
		self.mel = Some(mel::<T>);
		self.cel = true;
		self
	}

	pub fn with_len<T: DecodeLength>(mut self) -> Self {
		self.len_of = Some(len_of::<T>);
		self
	}

	pub fn tag(mut self, t: &'static str) -> Self {
		self.tags.push(t);
		self
	}

	pub fn tags(mut self, ts: &[&'static str]) -> Self {
		self.tags.extend_from_slice(ts);
		self
	}

	pub fn has_tag(&self, t: &str) -> bool {
		self.tags.iter().any(|x| *x == t)
	}

	pub fn d(&self) -> &DecOps {
		self.dec.as_ref().expect("type is not decodable")
	}
}

// ------------------------------------------------------------------------------------------
// compile-time capability probes ("inherent associated item beats blanket trait item")

pub mod probe {
	use super::*;
	use core::marker::PhantomData;

	pub struct W<T: ?Sized>(pub PhantomData<T>);

	pub trait NoCaps {
		const MEM_SLICE: Option<fn(&[u8], usize) -> (Option<Val>, usize)> = None;
		const MEL: Option<fn() -> usize> = None;
		const CEL: bool = false;
		const LEN_OF: Option<fn(&[u8]) -> Option<usize>> = None;
	}
	impl<T: ?Sized> NoCaps for W<T> {}

	pub struct WMem<T>(pub PhantomData<T>);
	pub struct WMel<T>(pub PhantomData<T>);
	pub struct WCel<T>(pub PhantomData<T>);
	pub struct WLen<T>(pub PhantomData<T>);
	pub trait NoMem {
		const MEM_SLICE: Option<fn(&[u8], usize) -> (Option<Val>, usize)> = None;
	}
	impl<T> NoMem for WMem<T> {}
	impl<T: Modelled + DecodeWithMemTracking> WMem<T> {
		pub const MEM_SLICE: Option<fn(&[u8], usize) -> (Option<Val>, usize)> = Some(dec_mem_slice::<T>);
	}
	pub trait NoMel {
		const MEL: Option<fn() -> usize> = None;
	}
	impl<T> NoMel for WMel<T> {}
	impl<T: MaxEncodedLen> WMel<T> {
		pub const MEL: Option<fn() -> usize> = Some(mel::<T>);
	}
	pub trait NoCel {
		const CEL: bool = false;
	}
	impl<T> NoCel for WCel<T> {}
	impl<T: parity_scale_codec::ConstEncodedLen> WCel<T> {
		pub const CEL: bool = true;
	}
	pub trait NoLen {
		const LEN_OF: Option<fn(&[u8]) -> Option<usize>> = None;
	}
	impl<T> NoLen for WLen<T> {}
	impl<T: DecodeLength> WLen<T> {
		pub const LEN_OF: Option<fn(&[u8]) -> Option<usize>> = Some(len_of::<T>);
	}
}

/// Build the `TypeOps` of a concrete codec type, probing its optional capabilities.
#[macro_export]
macro_rules! probe_ops {
	($t:ty) => {{
		#[allow(unused_imports)]
		use $crate::ops::probe::{NoCel, NoLen, NoMel, NoMem};
		let mut o = $crate::ops::TypeOps::codec::<$t>(stringify!($t));
		o.mem_slice = <$crate::ops::probe::WMem<$t>>::MEM_SLICE;
		o.mel = <$crate::ops::probe::WMel<$t>>::MEL;
		o.cel = <$crate::ops::probe::WCel<$t>>::CEL;
		o.len_of = <$crate::ops::probe::WLen<$t>>::LEN_OF;
		o
	}};
}

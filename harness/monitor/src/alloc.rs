//! Counting global allocator (sensor for property C09). Size counters only: it remembers no
//! addresses, so it hides nothing from LeakSanitizer / memcheck.

use std::alloc::{GlobalAlloc, Layout, System};
use std::sync::atomic::{AtomicBool, AtomicIsize, AtomicU64, AtomicUsize, Ordering::Relaxed};

pub struct CountingAlloc;

static TRACK: AtomicBool = AtomicBool::new(false);
static LIVE: AtomicIsize = AtomicIsize::new(0);
static PEAK: AtomicIsize = AtomicIsize::new(0);
static MAX_REQ: AtomicUsize = AtomicUsize::new(0);
static TOTAL: AtomicU64 = AtomicU64::new(0);
static NREQ: AtomicU64 = AtomicU64::new(0);
static REFUSED: AtomicU64 = AtomicU64::new(0);
static REFUSED_SIZE: AtomicUsize = AtomicUsize::new(0);

/// While tracking, a single request above this or a live total above [`REFUSE_LIVE`] is refused
/// (null is returned after recording it), so a decoder that allocates by claimed count ends in an
/// attributable allocation failure instead of taking the machine down.
pub const REFUSE_SINGLE: usize = 8 << 30;
pub const REFUSE_LIVE: isize = 16 << 30;

#[derive(Clone, Copy, Debug, Default)]
pub struct AllocStats {
	pub peak_live: usize,
	pub max_request: usize,
	pub total_requested: u64,
	pub requests: u64,
	pub refused: u64,
	pub refused_size: usize,
}

pub fn begin() {
	LIVE.store(0, Relaxed);
	PEAK.store(0, Relaxed);
	MAX_REQ.store(0, Relaxed);
	TOTAL.store(0, Relaxed);
	NREQ.store(0, Relaxed);
	REFUSED.store(0, Relaxed);
	REFUSED_SIZE.store(0, Relaxed);
	TRACK.store(true, Relaxed);
}

pub fn end() -> AllocStats {
	TRACK.store(false, Relaxed);
	AllocStats {
		peak_live: PEAK.load(Relaxed).max(0) as usize,
		max_request: MAX_REQ.load(Relaxed),
		total_requested: TOTAL.load(Relaxed),
		requests: NREQ.load(Relaxed),
		refused: REFUSED.load(Relaxed),
		refused_size: REFUSED_SIZE.load(Relaxed),
	}
}

#[inline]
fn on_request(size: usize) -> bool {
	if size > REFUSE_SINGLE || LIVE.load(Relaxed).saturating_add(size as isize) > REFUSE_LIVE {
		REFUSED.fetch_add(1, Relaxed);
		REFUSED_SIZE.fetch_max(size, Relaxed);
		return false;
	}
	NREQ.fetch_add(1, Relaxed);
	TOTAL.fetch_add(size as u64, Relaxed);
	MAX_REQ.fetch_max(size, Relaxed);
	true
}

#[inline]
fn on_live(delta: isize) {
	let l = LIVE.fetch_add(delta, Relaxed) + delta;
	PEAK.fetch_max(l, Relaxed);
}

unsafe impl GlobalAlloc for CountingAlloc {
	unsafe fn alloc(&self, layout: Layout) -> *mut u8 {
		if TRACK.load(Relaxed) {
			if !on_request(layout.size()) {
				return core::ptr::null_mut();
			}
			let p = System.alloc(layout);
			if !p.is_null() {
				on_live(layout.size() as isize);
			}
			p
		} else {
			System.alloc(layout)
		}
	}

	unsafe fn alloc_zeroed(&self, layout: Layout) -> *mut u8 {
		if TRACK.load(Relaxed) {
			if !on_request(layout.size()) {
				return core::ptr::null_mut();
			}
			let p = System.alloc_zeroed(layout);
			if !p.is_null() {
				on_live(layout.size() as isize);
			}
			p
		} else {
			System.alloc_zeroed(layout)
		}
	}

	unsafe fn dealloc(&self, ptr: *mut u8, layout: Layout) {
		if TRACK.load(Relaxed) {
			on_live(-(layout.size() as isize));
		}
		System.dealloc(ptr, layout)
	}

	unsafe fn realloc(&self, ptr: *mut u8, layout: Layout, new_size: usize) -> *mut u8 {
		if TRACK.load(Relaxed) {
			if !on_request(new_size) {
				return core::ptr::null_mut();
			}
			let p = System.realloc(ptr, layout, new_size);
			if !p.is_null() {
				on_live(new_size as isize - layout.size() as isize);
			}
			p
		} else {
			System.realloc(ptr, layout, new_size)
		}
	}
}

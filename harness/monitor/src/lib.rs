//! Runtime-monitoring machinery for parity-scale-codec: reference model, generators, boundary
//! spies, counting allocator, drop ledger, type table and report writer.

pub mod alloc;
pub mod bridge;
pub mod diff;
pub mod gen;
pub mod ledger;
pub mod model;
pub mod ops;
pub mod report;
pub mod rng;
pub mod spy;
pub mod suite;

pub use parity_scale_codec as codec;

//! Construction / drop ledger (sensor for property C10): an instrumented element type whose every
//! instance has a unique id. The ledger stores ids, never addresses, and each instance owns a
//! `Box`, so sanitizers independently see double frees, leaks and use-after-free.

use parity_scale_codec::{Decode, DecodeWithMemTracking, Encode, Error, Input};
use std::cell::RefCell;
use std::collections::HashSet;

#[derive(Default)]
pub struct Ledger {
	pub next_id: u64,
	pub live: HashSet<u64>,
	pub constructed: u64,
	pub dropped: u64,
	pub zst_constructed: u64,
	pub zst_dropped: u64,
	pub errors: Vec<String>,
}

thread_local! {
	pub static LEDGER: RefCell<Ledger> = RefCell::new(Ledger::default());
}

pub fn reset() {
	LEDGER.with(|l| *l.borrow_mut() = Ledger::default());
}

/// Check conservation at a quiescent point (everything decoded has been dropped again).
pub fn settle() -> Result<(u64, u64), String> {
	LEDGER.with(|l| {
		let l = l.borrow();
		if let Some(e) = l.errors.first() {
			return Err(format!("{} (and {} more)", e, l.errors.len() - 1));
		}
		if !l.live.is_empty() {
			let mut ids: Vec<_> = l.live.iter().copied().collect();
			ids.sort();
			return Err(format!("leak: {} instance(s) constructed but never dropped, ids {:?}", ids.len(), &ids[..ids.len().min(8)]));
		}
		if l.constructed != l.dropped {
			return Err(format!("constructed {} != dropped {}", l.constructed, l.dropped));
		}
		if l.zst_constructed != l.zst_dropped {
			return Err(format!("zero-sized: constructed {} != dropped {}", l.zst_constructed, l.zst_dropped));
		}
		Ok((l.constructed + l.zst_constructed, l.dropped + l.zst_dropped))
	})
}

pub fn live_now() -> usize {
	LEDGER.with(|l| l.borrow().live.len())
}

pub fn constructed_now() -> u64 {
	LEDGER.with(|l| {
		let l = l.borrow();
		l.constructed + l.zst_constructed
	})
}

/// Control byte semantics: 0 (or anything >= 3) = construct, 1 = return `Err`, 2 = panic.
pub const CTL_OK: u8 = 0;
pub const CTL_ERR: u8 = 1;
pub const CTL_PANIC: u8 = 2;

pub struct Tracked {
	pub id: u64,
	pub tag: u8,
	boxed: Box<u64>,
}

impl Tracked {
	pub fn new(tag: u8) -> Self {
		let id = LEDGER.with(|l| {
			let mut l = l.borrow_mut();
			l.next_id += 1;
			let id = l.next_id;
			l.live.insert(id);
			l.constructed += 1;
			id
		});
		Tracked { id, tag, boxed: Box::new(id ^ 0x5a5a_5a5a) }
	}
}

impl Default for Tracked {
	fn default() -> Self {
		Tracked::new(0xdd)
	}
}

impl Drop for Tracked {
	fn drop(&mut self) {
		let id = self.id;
		let intact = *self.boxed == id ^ 0x5a5a_5a5a;
		// never panic in drop: record instead
		let _ = LEDGER.try_with(|l| {
			let mut l = l.borrow_mut();
			l.dropped += 1;
			if !intact {
				l.errors.push(format!("instance {id} dropped with corrupted payload (uninitialised or reused memory)"));
			}
			if !l.live.remove(&id) {
				l.errors.push(format!("instance {id} dropped but not live (double drop, or drop of a never constructed value)"));
			}
		});
	}
}

fn control<I: Input>(input: &mut I) -> Result<u8, Error> {
	let b = input.read_byte()?;
	match b {
		CTL_ERR => Err("tracked: malformed element".into()),
		CTL_PANIC => panic!("tracked: element decoder panics"),
		b => Ok(b),
	}
}

impl Decode for Tracked {
	fn decode<I: Input>(input: &mut I) -> Result<Self, Error> {
		let b = control(input)?;
		Ok(Tracked::new(b))
	}
}
impl DecodeWithMemTracking for Tracked {}

impl Encode for Tracked {
	fn encode_to<W: parity_scale_codec::Output + ?Sized>(&self, dest: &mut W) {
		dest.push_byte(self.tag);
	}
}

impl PartialEq for Tracked {
	fn eq(&self, o: &Self) -> bool {
		self.tag == o.tag
	}
}
impl Eq for Tracked {}
impl PartialOrd for Tracked {
	fn partial_cmp(&self, o: &Self) -> Option<core::cmp::Ordering> {
		Some(self.cmp(o))
	}
}
impl Ord for Tracked {
	fn cmp(&self, o: &Self) -> core::cmp::Ordering {
		self.tag.cmp(&o.tag)
	}
}

/// Zero-sized element with a `Drop` impl: conservation is checked by count.
pub struct TrackedZst;

impl TrackedZst {
	pub fn new() -> Self {
		LEDGER.with(|l| l.borrow_mut().zst_constructed += 1);
		TrackedZst
	}
}

impl Default for TrackedZst {
	fn default() -> Self {
		TrackedZst::new()
	}
}

impl Drop for TrackedZst {
	fn drop(&mut self) {
		let _ = LEDGER.try_with(|l| {
			let mut l = l.borrow_mut();
			l.zst_dropped += 1;
			if l.zst_dropped > l.zst_constructed {
				let (c, d) = (l.zst_constructed, l.zst_dropped);
				l.errors.push(format!("zero-sized instance dropped {d} times with only {c} constructed"));
			}
		});
	}
}

impl Decode for TrackedZst {
	fn decode<I: Input>(input: &mut I) -> Result<Self, Error> {
		control(input)?;
		Ok(TrackedZst::new())
	}
}
impl DecodeWithMemTracking for TrackedZst {}

// model view: an instrumented element is a one-byte struct (its control byte / tag)
impl crate::bridge::Modelled for Tracked {
	fn ty() -> crate::model::Ty {
		crate::model::Ty::Struct { name: "Tracked".into(), fields: vec![crate::model::FieldTy::plain(crate::model::Ty::u(1))] }
	}
	fn to_val(&self) -> crate::model::Val {
		crate::model::Val::Tuple(vec![crate::model::Val::Int(self.tag as u128)])
	}
	fn from_val(v: &crate::model::Val) -> Self {
		match v {
			crate::model::Val::Tuple(xs) => match &xs[0] {
				crate::model::Val::Int(t) => Tracked::new(*t as u8),
				_ => panic!("Tracked::from_val"),
			},
			_ => panic!("Tracked::from_val"),
		}
	}
}

impl Encode for TrackedZst {
	fn encode_to<W: parity_scale_codec::Output + ?Sized>(&self, dest: &mut W) {
		dest.push_byte(0);
	}
}

impl crate::bridge::Modelled for TrackedZst {
	fn ty() -> crate::model::Ty {
		crate::model::Ty::Struct { name: "Tracked".into(), fields: vec![crate::model::FieldTy::plain(crate::model::Ty::u(1))] }
	}
	fn to_val(&self) -> crate::model::Val {
		crate::model::Val::Tuple(vec![crate::model::Val::Int(0)])
	}
	fn from_val(_: &crate::model::Val) -> Self {
		TrackedZst::new()
	}
}

//! Bridge between real Rust types and the reference model: every type of the universe says what
//! its model type is and converts values both ways. Generic impls build the universe from type
//! expressions. Derived types get hand-written (or generator-written) impls *from the definition
//! text*, never from the derive macro.

use crate::model::*;
#[cfg(feature = "bit-vec")]
use bitvec::prelude::{BitBox, BitOrder, BitStore, BitVec, Lsb0, Msb0};
use core::marker::PhantomData;
use core::num::*;
use core::ops::{Range, RangeInclusive};
use core::time::Duration;
use parity_scale_codec::{Compact, OptionBool};
use std::borrow::Cow;
use std::collections::{BTreeMap, BTreeSet, BinaryHeap, LinkedList, VecDeque};
use std::rc::Rc;
use std::sync::Arc;

/// Logical heap payload of a decoded value (property C12).
#[derive(Default, Clone, Copy, Debug)]
pub struct Heap {
	/// bytes of decoded data held in sequence buffers, list nodes, boxes, strings, bit stores
	pub exact: usize,
	/// bytes of decoded data held in tree maps / sets (the estimate may be off by a factor 2)
	pub tree: usize,
	/// number of heap objects with a non-zero payload or per-element overhead
	pub objects: usize,
}

pub trait Modelled: Sized {
	fn ty() -> Ty;
	fn to_val(&self) -> Val;
	fn from_val(v: &Val) -> Self;
	fn heap(&self, _acc: &mut Heap) {}
}

fn bad<T>(v: &Val) -> ! {
	panic!("bridge: {:?} is not a value of {}", v, core::any::type_name::<T>())
}

macro_rules! impl_int {
	($($t:ty, $u:ty, $signed:expr;)*) => {$(
		impl Modelled for $t {
			fn ty() -> Ty { Ty::Int { bytes: core::mem::size_of::<$t>() as u8, signed: $signed } }
			fn to_val(&self) -> Val { Val::Int((*self as $u) as u128) }
			fn from_val(v: &Val) -> Self { match v { Val::Int(x) => (*x as $u) as $t, _ => bad::<Self>(v) } }
		}
	)*}
}
impl_int! {
	u8, u8, false; u16, u16, false; u32, u32, false; u64, u64, false; u128, u128, false;
	i8, u8, true; i16, u16, true; i32, u32, true; i64, u64, true; i128, u128, true;
}

impl Modelled for f32 {
	fn ty() -> Ty {
		Ty::F32
	}
	fn to_val(&self) -> Val {
		Val::Int(self.to_bits() as u128)
	}
	fn from_val(v: &Val) -> Self {
		match v {
			Val::Int(x) => f32::from_bits(*x as u32),
			_ => bad::<Self>(v),
		}
	}
}

impl Modelled for f64 {
	fn ty() -> Ty {
		Ty::F64
	}
	fn to_val(&self) -> Val {
		Val::Int(self.to_bits() as u128)
	}
	fn from_val(v: &Val) -> Self {
		match v {
			Val::Int(x) => f64::from_bits(*x as u64),
			_ => bad::<Self>(v),
		}
	}
}

impl Modelled for bool {
	fn ty() -> Ty {
		Ty::Bool
	}
	fn to_val(&self) -> Val {
		Val::Bool(*self)
	}
	fn from_val(v: &Val) -> Self {
		match v {
			Val::Bool(b) => *b,
			_ => bad::<Self>(v),
		}
	}
}

impl Modelled for () {
	fn ty() -> Ty {
		Ty::Unit
	}
	fn to_val(&self) -> Val {
		Val::Unit
	}
	fn from_val(_: &Val) -> Self {}
}

impl<T> Modelled for PhantomData<T> {
	fn ty() -> Ty {
		Ty::Unit
	}
	fn to_val(&self) -> Val {
		Val::Unit
	}
	fn from_val(_: &Val) -> Self {
		PhantomData
	}
}

impl Modelled for Compact<()> {
	fn ty() -> Ty {
		Ty::Unit
	}
	fn to_val(&self) -> Val {
		Val::Unit
	}
	fn from_val(_: &Val) -> Self {
		Compact(())
	}
}

/// Types `T` for which `Compact<T>` is a compact integer of a given width (the unsigned integers,
/// and `CompactAs` newtypes over them).
pub trait CompactModel: Sized {
	fn bits() -> u8;
	fn to_u128(&self) -> u128;
	fn from_u128(x: u128) -> Self;
}

macro_rules! impl_compact {
	($($t:ty),*) => {$(
		impl CompactModel for $t {
			fn bits() -> u8 { (core::mem::size_of::<$t>() * 8) as u8 }
			fn to_u128(&self) -> u128 { *self as u128 }
			fn from_u128(x: u128) -> Self { x as $t }
		}
	)*}
}
impl_compact!(u8, u16, u32, u64, u128);

impl<T: CompactModel> Modelled for Compact<T> {
	fn ty() -> Ty {
		Ty::Compact { bits: T::bits() }
	}
	fn to_val(&self) -> Val {
		Val::Int(self.0.to_u128())
	}
	fn from_val(v: &Val) -> Self {
		match v {
			Val::Int(x) => Compact(T::from_u128(*x)),
			_ => bad::<Self>(v),
		}
	}
}

macro_rules! impl_nonzero {
	($($nz:ty, $t:ty, $u:ty, $signed:expr;)*) => {$(
		impl Modelled for $nz {
			fn ty() -> Ty { Ty::NonZero { bytes: core::mem::size_of::<$t>() as u8, signed: $signed } }
			fn to_val(&self) -> Val { Val::Int((self.get() as $u) as u128) }
			fn from_val(v: &Val) -> Self {
				match v { Val::Int(x) => <$nz>::new((*x as $u) as $t).expect("bridge: zero NonZero"), _ => bad::<Self>(v) }
			}
		}
	)*}
}
impl_nonzero! {
	NonZeroU8, u8, u8, false; NonZeroU16, u16, u16, false; NonZeroU32, u32, u32, false;
	NonZeroU64, u64, u64, false; NonZeroU128, u128, u128, false;
	NonZeroI8, i8, u8, true; NonZeroI16, i16, u16, true; NonZeroI32, i32, u32, true;
	NonZeroI64, i64, u64, true; NonZeroI128, i128, u128, true;
}

impl<T: Modelled> Modelled for Option<T> {
	fn ty() -> Ty {
		Ty::opt(T::ty())
	}
	fn to_val(&self) -> Val {
		Val::Opt(self.as_ref().map(|x| Box::new(x.to_val())))
	}
	fn from_val(v: &Val) -> Self {
		match v {
			Val::Opt(o) => o.as_ref().map(|x| T::from_val(x)),
			_ => bad::<Self>(v),
		}
	}
	fn heap(&self, acc: &mut Heap) {
		if let Some(x) = self {
			x.heap(acc)
		}
	}
}

impl<T: Modelled, E: Modelled> Modelled for Result<T, E> {
	fn ty() -> Ty {
		Ty::Result(Box::new(T::ty()), Box::new(E::ty()))
	}
	fn to_val(&self) -> Val {
		Val::Res(match self {
			Ok(x) => Ok(Box::new(x.to_val())),
			Err(x) => Err(Box::new(x.to_val())),
		})
	}
	fn from_val(v: &Val) -> Self {
		match v {
			Val::Res(Ok(x)) => Ok(T::from_val(x)),
			Val::Res(Err(x)) => Err(E::from_val(x)),
			_ => bad::<Self>(v),
		}
	}
	fn heap(&self, acc: &mut Heap) {
		match self {
			Ok(x) => x.heap(acc),
			Err(x) => x.heap(acc),
		}
	}
}

impl Modelled for OptionBool {
	fn ty() -> Ty {
		Ty::OptionBool
	}
	fn to_val(&self) -> Val {
		Val::OptBool(self.0)
	}
	fn from_val(v: &Val) -> Self {
		match v {
			Val::OptBool(o) => OptionBool(*o),
			_ => bad::<Self>(v),
		}
	}
}

fn seq_of<'a, T: Modelled + 'a>(it: impl Iterator<Item = &'a T>) -> Val {
	Val::Seq(it.map(|x| x.to_val()).collect())
}

fn items<T>(v: &Val) -> &Vec<Val> {
	match v {
		Val::Seq(xs) => xs,
		_ => bad::<T>(v),
	}
}

fn buffer_heap<T: Modelled>(len: usize, acc: &mut Heap) {
	let bytes = len * core::mem::size_of::<T>();
	acc.exact += bytes;
	if bytes > 0 {
		acc.objects += 1;
	}
}

impl<T: Modelled> Modelled for Vec<T> {
	fn ty() -> Ty {
		Ty::seq_m(T::ty(), SeqKind::Vec, core::mem::size_of::<T>())
	}
	fn to_val(&self) -> Val {
		seq_of(self.iter())
	}
	fn from_val(v: &Val) -> Self {
		items::<Self>(v).iter().map(T::from_val).collect()
	}
	fn heap(&self, acc: &mut Heap) {
		buffer_heap::<T>(self.len(), acc);
		self.iter().for_each(|x| x.heap(acc));
	}
}

impl<T: Modelled> Modelled for VecDeque<T> {
	fn ty() -> Ty {
		Ty::seq_m(T::ty(), SeqKind::Deque, core::mem::size_of::<T>())
	}
	fn to_val(&self) -> Val {
		seq_of(self.iter())
	}
	fn from_val(v: &Val) -> Self {
		items::<Self>(v).iter().map(T::from_val).collect()
	}
	fn heap(&self, acc: &mut Heap) {
		buffer_heap::<T>(self.len(), acc);
		self.iter().for_each(|x| x.heap(acc));
	}
}

impl<T: Modelled> Modelled for LinkedList<T> {
	fn ty() -> Ty {
		Ty::seq_m(T::ty(), SeqKind::List, core::mem::size_of::<T>())
	}
	fn to_val(&self) -> Val {
		seq_of(self.iter())
	}
	fn from_val(v: &Val) -> Self {
		items::<Self>(v).iter().map(T::from_val).collect()
	}
	fn heap(&self, acc: &mut Heap) {
		acc.exact += self.len() * core::mem::size_of::<T>();
		acc.objects += self.len();
		self.iter().for_each(|x| x.heap(acc));
	}
}

impl<T: Modelled + Ord> Modelled for BinaryHeap<T> {
	fn ty() -> Ty {
		Ty::seq_m(T::ty(), SeqKind::Heap, core::mem::size_of::<T>())
	}
	/// canonical form: elements in ascending order (a heap is a multiset)
	fn to_val(&self) -> Val {
		let mut refs: Vec<&T> = self.iter().collect();
		refs.sort();
		Val::Seq(refs.into_iter().map(|x| x.to_val()).collect())
	}
	fn from_val(v: &Val) -> Self {
		items::<Self>(v).iter().map(T::from_val).collect()
	}
	fn heap(&self, acc: &mut Heap) {
		buffer_heap::<T>(self.len(), acc);
		self.iter().for_each(|x| x.heap(acc));
	}
}

impl<T: Modelled + Ord> Modelled for BTreeSet<T> {
	fn ty() -> Ty {
		Ty::seq_m(T::ty(), SeqKind::Set, core::mem::size_of::<T>())
	}
	fn to_val(&self) -> Val {
		seq_of(self.iter())
	}
	fn from_val(v: &Val) -> Self {
		items::<Self>(v).iter().map(T::from_val).collect()
	}
	fn heap(&self, acc: &mut Heap) {
		let bytes = self.len() * core::mem::size_of::<T>();
		acc.tree += bytes;
		if !self.is_empty() {
			acc.objects += 1;
		}
		self.iter().for_each(|x| x.heap(acc));
	}
}

impl<K: Modelled + Ord, V: Modelled> Modelled for BTreeMap<K, V> {
	fn ty() -> Ty {
		Ty::Map(Box::new(K::ty()), Box::new(V::ty()))
	}
	fn to_val(&self) -> Val {
		Val::Seq(self.iter().map(|(k, v)| Val::Tuple(vec![k.to_val(), v.to_val()])).collect())
	}
	fn from_val(v: &Val) -> Self {
		items::<Self>(v)
			.iter()
			.map(|kv| match kv {
				Val::Tuple(kv) if kv.len() == 2 => (K::from_val(&kv[0]), V::from_val(&kv[1])),
				_ => bad::<Self>(v),
			})
			.collect()
	}
	fn heap(&self, acc: &mut Heap) {
		let bytes = self.len() * core::mem::size_of::<(K, V)>();
		acc.tree += bytes;
		if !self.is_empty() {
			acc.objects += 1;
		}
		self.iter().for_each(|(k, v)| {
			k.heap(acc);
			v.heap(acc)
		});
	}
}

impl<T: Modelled, const N: usize> Modelled for [T; N] {
	fn ty() -> Ty {
		Ty::Array(Box::new(T::ty()), N)
	}
	fn to_val(&self) -> Val {
		seq_of(self.iter())
	}
	fn from_val(v: &Val) -> Self {
		let xs = items::<Self>(v);
		assert_eq!(xs.len(), N);
		core::array::from_fn(|i| T::from_val(&xs[i]))
	}
	fn heap(&self, acc: &mut Heap) {
		self.iter().for_each(|x| x.heap(acc));
	}
}

#[cfg(feature = "generic-array")]
impl<T: Modelled, N: generic_array::ArrayLength<T>> Modelled for generic_array::GenericArray<T, N> {
	fn ty() -> Ty {
		Ty::Array(Box::new(T::ty()), N::to_usize())
	}
	fn to_val(&self) -> Val {
		seq_of(self.iter())
	}
	fn from_val(v: &Val) -> Self {
		let xs = items::<Self>(v);
		generic_array::GenericArray::from_exact_iter(xs.iter().map(T::from_val)).expect("bridge: generic array length")
	}
	fn heap(&self, acc: &mut Heap) {
		self.iter().for_each(|x| x.heap(acc));
	}
}

macro_rules! impl_tuple {
	($( ($($n:ident : $i:tt),+) )*) => {$(
		impl<$($n: Modelled),+> Modelled for ($($n,)+) {
			fn ty() -> Ty { Ty::Tuple(vec![$($n::ty()),+]) }
			fn to_val(&self) -> Val { Val::Tuple(vec![$(self.$i.to_val()),+]) }
			fn from_val(v: &Val) -> Self {
				match v { Val::Tuple(xs) => ($($n::from_val(&xs[$i]),)+), _ => bad::<Self>(v) }
			}
			fn heap(&self, acc: &mut Heap) { $(self.$i.heap(acc);)+ }
		}
	)*}
}
impl_tuple! {
	(A:0)
	(A:0,B:1)
	(A:0,B:1,C:2)
	(A:0,B:1,C:2,D:3)
	(A:0,B:1,C:2,D:3,E:4)
	(A:0,B:1,C:2,D:3,E:4,F:5)
	(A:0,B:1,C:2,D:3,E:4,F:5,G:6)
	(A:0,B:1,C:2,D:3,E:4,F:5,G:6,H:7)
	(A:0,B:1,C:2,D:3,E:4,F:5,G:6,H:7,I:8)
	(A:0,B:1,C:2,D:3,E:4,F:5,G:6,H:7,I:8,J:9)
	(A:0,B:1,C:2,D:3,E:4,F:5,G:6,H:7,I:8,J:9,K:10)
	(A:0,B:1,C:2,D:3,E:4,F:5,G:6,H:7,I:8,J:9,K:10,L:11)
	(A:0,B:1,C:2,D:3,E:4,F:5,G:6,H:7,I:8,J:9,K:10,L:11,M:12)
	(A:0,B:1,C:2,D:3,E:4,F:5,G:6,H:7,I:8,J:9,K:10,L:11,M:12,N:13)
	(A:0,B:1,C:2,D:3,E:4,F:5,G:6,H:7,I:8,J:9,K:10,L:11,M:12,N:13,O:14)
	(A:0,B:1,C:2,D:3,E:4,F:5,G:6,H:7,I:8,J:9,K:10,L:11,M:12,N:13,O:14,P:15)
	(A:0,B:1,C:2,D:3,E:4,F:5,G:6,H:7,I:8,J:9,K:10,L:11,M:12,N:13,O:14,P:15,Q:16)
	(A:0,B:1,C:2,D:3,E:4,F:5,G:6,H:7,I:8,J:9,K:10,L:11,M:12,N:13,O:14,P:15,Q:16,R:17)
}

impl Modelled for String {
	fn ty() -> Ty {
		Ty::Str
	}
	fn to_val(&self) -> Val {
		Val::Str(self.clone())
	}
	fn from_val(v: &Val) -> Self {
		match v {
			Val::Str(s) => s.clone(),
			_ => bad::<Self>(v),
		}
	}
	fn heap(&self, acc: &mut Heap) {
		acc.exact += self.len();
		if !self.is_empty() {
			acc.objects += 1;
		}
	}
}

impl Modelled for Cow<'static, str> {
	fn ty() -> Ty {
		Ty::Str
	}
	fn to_val(&self) -> Val {
		Val::Str(self.to_string())
	}
	fn from_val(v: &Val) -> Self {
		Cow::Owned(String::from_val(v))
	}
	fn heap(&self, acc: &mut Heap) {
		acc.exact += self.len();
		if !self.is_empty() {
			acc.objects += 1;
		}
	}
}

impl<T: Modelled + Clone + 'static> Modelled for Cow<'static, [T]> {
	fn ty() -> Ty {
		Ty::seq_m(T::ty(), SeqKind::CowSlice, core::mem::size_of::<T>())
	}
	fn to_val(&self) -> Val {
		seq_of(self.iter())
	}
	fn from_val(v: &Val) -> Self {
		Cow::Owned(Vec::<T>::from_val(v))
	}
	fn heap(&self, acc: &mut Heap) {
		buffer_heap::<T>(self.len(), acc);
		self.iter().for_each(|x| x.heap(acc));
	}
}

macro_rules! impl_ptr {
	($($p:ident, $k:expr;)*) => {$(
		impl<T: Modelled> Modelled for $p<T> {
			fn ty() -> Ty { Ty::ptr(T::ty(), $k) }
			fn to_val(&self) -> Val { (**self).to_val() }
			fn from_val(v: &Val) -> Self { $p::new(T::from_val(v)) }
			fn heap(&self, acc: &mut Heap) {
				let bytes = core::mem::size_of::<T>();
				acc.exact += bytes;
				if bytes > 0 { acc.objects += 1; }
				(**self).heap(acc);
			}
		}
	)*}
}
impl_ptr! { Box, PtrKind::Box; Rc, PtrKind::Rc; Arc, PtrKind::Arc; }

impl Modelled for Duration {
	fn ty() -> Ty {
		Ty::Duration
	}
	fn to_val(&self) -> Val {
		Val::Tuple(vec![Val::Int(self.as_secs() as u128), Val::Int(self.subsec_nanos() as u128)])
	}
	fn from_val(v: &Val) -> Self {
		match v {
			Val::Tuple(xs) => match (&xs[0], &xs[1]) {
				(Val::Int(s), Val::Int(n)) => Duration::new(*s as u64, *n as u32),
				_ => bad::<Self>(v),
			},
			_ => bad::<Self>(v),
		}
	}
}

impl<T: Modelled> Modelled for Range<T> {
	fn ty() -> Ty {
		Ty::Tuple(vec![T::ty(), T::ty()])
	}
	fn to_val(&self) -> Val {
		Val::Tuple(vec![self.start.to_val(), self.end.to_val()])
	}
	fn from_val(v: &Val) -> Self {
		match v {
			Val::Tuple(xs) => T::from_val(&xs[0])..T::from_val(&xs[1]),
			_ => bad::<Self>(v),
		}
	}
	fn heap(&self, acc: &mut Heap) {
		self.start.heap(acc);
		self.end.heap(acc);
	}
}

impl<T: Modelled> Modelled for RangeInclusive<T> {
	fn ty() -> Ty {
		Ty::Tuple(vec![T::ty(), T::ty()])
	}
	fn to_val(&self) -> Val {
		Val::Tuple(vec![self.start().to_val(), self.end().to_val()])
	}
	fn from_val(v: &Val) -> Self {
		match v {
			Val::Tuple(xs) => T::from_val(&xs[0])..=T::from_val(&xs[1]),
			_ => bad::<Self>(v),
		}
	}
	fn heap(&self, acc: &mut Heap) {
		self.start().heap(acc);
		self.end().heap(acc);
	}
}

#[cfg(feature = "bit-vec")]
pub trait OrderInfo {
	const MSB0: bool;
}
#[cfg(feature = "bit-vec")]
impl OrderInfo for Lsb0 {
	const MSB0: bool = false;
}
#[cfg(feature = "bit-vec")]
impl OrderInfo for Msb0 {
	const MSB0: bool = true;
}

pub fn bits_heap<S>(bits: usize, acc: &mut Heap) {
	let w = core::mem::size_of::<S>() * 8;
	let bytes = (bits + w - 1) / w * core::mem::size_of::<S>();
	acc.exact += bytes;
	if bytes > 0 {
		acc.objects += 1;
	}
}

#[cfg(feature = "bit-vec")]
impl<S: BitStore, O: BitOrder + OrderInfo> Modelled for BitVec<S, O> {
	fn ty() -> Ty {
		Ty::Bits { store_bytes: core::mem::size_of::<S>() as u8, msb0: O::MSB0, boxed: false }
	}
	fn to_val(&self) -> Val {
		Val::Bits(self.iter().by_vals().collect())
	}
	/// Builds the same logical bit sequence in one of four memory layouts chosen from its
	/// content: plain, with a non-zero head offset inside the first store word, with stale set
	/// bits beyond the length, or with spare capacity.
	fn from_val(v: &Val) -> Self {
		match v {
			Val::Bits(b) => {
				let w = core::mem::size_of::<S>() * 8;
				let h = crate::report::hash64(b);
				match h % 4 {
					0 => b.iter().copied().collect(),
					1 => {
						let off = 1 + (h >> 8) as usize % (w - 1);
						let mut tmp: BitVec<S, O> = BitVec::with_capacity(off + b.len());
						for i in 0..off {
							tmp.push(i % 2 == 0);
						}
						tmp.extend(b.iter().copied());
						BitVec::from_bitslice(&tmp[off..])
					},
					2 => {
						let extra = 1 + (h >> 8) as usize % (2 * w);
						let mut tmp: BitVec<S, O> = b.iter().copied().collect();
						for _ in 0..extra {
							tmp.push(true);
						}
						tmp.truncate(b.len());
						tmp
					},
					_ => {
						let mut tmp: BitVec<S, O> = BitVec::with_capacity(b.len() + 3 * w);
						tmp.extend(b.iter().copied());
						tmp
					},
				}
			},
			_ => bad::<Self>(v),
		}
	}
	fn heap(&self, acc: &mut Heap) {
		bits_heap::<S>(self.len(), acc);
	}
}

#[cfg(feature = "bit-vec")]
impl<S: BitStore, O: BitOrder + OrderInfo> Modelled for BitBox<S, O> {
	fn ty() -> Ty {
		Ty::Bits { store_bytes: core::mem::size_of::<S>() as u8, msb0: O::MSB0, boxed: true }
	}
	fn to_val(&self) -> Val {
		Val::Bits(self.iter().by_vals().collect())
	}
	fn from_val(v: &Val) -> Self {
		BitVec::<S, O>::from_val(v).into_boxed_bitslice()
	}
	fn heap(&self, acc: &mut Heap) {
		bits_heap::<S>(self.len(), acc);
	}
}

#[cfg(feature = "bytes")]
impl Modelled for bytes::Bytes {
	fn ty() -> Ty {
		Ty::seq_m(Ty::u(1), SeqKind::Bytes, 1)
	}
	fn to_val(&self) -> Val {
		Val::Seq(self.iter().map(|b| Val::Int(*b as u128)).collect())
	}
	fn from_val(v: &Val) -> Self {
		bytes::Bytes::from(Vec::<u8>::from_val(v))
	}
	fn heap(&self, acc: &mut Heap) {
		acc.exact += self.len();
		if !self.is_empty() {
			acc.objects += 1;
		}
	}
}

/// Element-wise twin of a primitive: forwards to `P` but keeps `TYPE_INFO = Unknown`, which forces
/// containers of it through the one-element-at-a-time paths (property C07).
#[derive(Clone, Copy, Debug, PartialEq, Eq, PartialOrd, Ord, Default)]
pub struct Twin<P>(pub P);

impl<P: parity_scale_codec::Encode> parity_scale_codec::Encode for Twin<P> {
	fn size_hint(&self) -> usize {
		self.0.size_hint()
	}
	fn encode_to<W: parity_scale_codec::Output + ?Sized>(&self, dest: &mut W) {
		self.0.encode_to(dest)
	}
}

impl<P: parity_scale_codec::Decode> parity_scale_codec::Decode for Twin<P> {
	fn decode<I: parity_scale_codec::Input>(input: &mut I) -> Result<Self, parity_scale_codec::Error> {
		P::decode(input).map(Twin)
	}
}

impl<P: parity_scale_codec::DecodeWithMemTracking> parity_scale_codec::DecodeWithMemTracking for Twin<P> {}

impl<P: Modelled> Modelled for Twin<P> {
	fn ty() -> Ty {
		P::ty()
	}
	fn to_val(&self) -> Val {
		self.0.to_val()
	}
	fn from_val(v: &Val) -> Self {
		Twin(P::from_val(v))
	}
	fn heap(&self, acc: &mut Heap) {
		self.0.heap(acc)
	}
}

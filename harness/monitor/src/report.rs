//! Per-shard result collection: counters, distinct-case set, samples, violations; written as one
//! JSON object that the driver merges into the evidence file.

use std::collections::{BTreeMap, HashSet};
use std::fmt::Write as _;
use std::hash::{Hash, Hasher};
use std::io::Write as _;

pub fn jstr(s: &str) -> String {
	let mut o = String::with_capacity(s.len() + 2);
	o.push('"');
	for c in s.chars() {
		match c {
			'"' => o.push_str("\\\""),
			'\\' => o.push_str("\\\\"),
			'\n' => o.push_str("\\n"),
			'\r' => o.push_str("\\r"),
			'\t' => o.push_str("\\t"),
			c if (c as u32) < 0x20 => {
				let _ = write!(o, "\\u{:04x}", c as u32);
			},
			c => o.push(c),
		}
	}
	o.push('"');
	o
}

/// Build a JSON object from already-rendered values.
pub fn jobj(fields: &[(&str, String)]) -> String {
	let mut o = String::from("{");
	for (i, (k, v)) in fields.iter().enumerate() {
		if i > 0 {
			o.push(',');
		}
		o.push_str(&jstr(k));
		o.push(':');
		o.push_str(v);
	}
	o.push('}');
	o
}

pub fn hash64<T: Hash>(x: &T) -> u64 {
	let mut h = Fnv(0xcbf29ce484222325);
	x.hash(&mut h);
	h.finish()
}

pub struct Fnv(pub u64);
impl Hasher for Fnv {
	fn finish(&self) -> u64 {
		// final avalanche
		let mut z = self.0;
		z = (z ^ (z >> 30)).wrapping_mul(0xBF58476D1CE4E5B9);
		z = (z ^ (z >> 27)).wrapping_mul(0x94D049BB133111EB);
		z ^ (z >> 31)
	}
	fn write(&mut self, bytes: &[u8]) {
		for b in bytes {
			self.0 ^= *b as u64;
			self.0 = self.0.wrapping_mul(0x100000001b3);
		}
	}
}

pub struct Violation {
	/// stable signature used to match `known_findings.json`
	pub sig: String,
	pub msg: String,
	/// JSON object describing the witness (type, bytes, ...)
	pub replay: String,
}

pub const DISTINCT_CAP: usize = 3_000_000;

pub struct Report {
	pub prop: String,
	pub evaluations: u64,
	pub distinct: HashSet<u64>,
	pub distinct_overflow: u64,
	/// distinct cases counted by construction (enumerations that never repeat a case)
	pub distinct_enumerated: u64,
	pub counters: BTreeMap<String, u64>,
	pub samples: Vec<String>,
	pub violations: Vec<Violation>,
	pub viol_total: u64,
	pub missing: Vec<String>,
	pub max_samples: usize,
	pub sample_tick: u64,
	/// when set, every case is announced here before it runs (abort attribution)
	pub trace_path: Option<String>,
}

impl Report {
	pub fn new(prop: &str) -> Self {
		Report {
			prop: prop.to_string(),
			evaluations: 0,
			distinct: HashSet::new(),
			distinct_overflow: 0,
			distinct_enumerated: 0,
			counters: BTreeMap::new(),
			samples: Vec::new(),
			violations: Vec::new(),
			viol_total: 0,
			missing: Vec::new(),
			max_samples: 6,
			sample_tick: 0,
			trace_path: std::env::var("VERIF_TRACE_CASES").ok(),
		}
	}

	pub fn count(&mut self, key: &str) {
		self.add(key, 1);
	}

	pub fn add(&mut self, key: &str, n: u64) {
		if let Some(c) = self.counters.get_mut(key) {
			*c += n;
		} else {
			self.counters.insert(key.to_string(), n);
		}
	}

	pub fn max(&mut self, key: &str, n: u64) {
		let c = self.counters.entry(key.to_string()).or_insert(0);
		if n > *c {
			*c = n;
		}
	}

	pub fn get(&self, key: &str) -> u64 {
		self.counters.get(key).copied().unwrap_or(0)
	}

	/// Record a distinct non-trivial case by its key hash.
	pub fn nontrivial(&mut self, key: u64) {
		if self.distinct.len() < DISTINCT_CAP {
			self.distinct.insert(key);
		} else if !self.distinct.contains(&key) {
			// counted conservatively: beyond the cap we no longer know whether a key is new
			self.distinct_overflow += 1;
		}
	}

	pub fn sample(&mut self, json: String) {
		if self.samples.len() < self.max_samples {
			self.samples.push(json);
		}
	}

	/// sparse: roughly one in 97 eligible cases, so samples spread over types
	pub fn want_sample(&mut self) -> bool {
		self.sample_tick += 1;
		self.samples.len() < self.max_samples && self.sample_tick % 97 == 1
	}

	pub fn violation(&mut self, sig: &str, msg: String, replay: String) {
		self.viol_total += 1;
		// keep one witness per signature (plus a few extra), count the rest
		let same = self.violations.iter().filter(|v| v.sig == sig).count();
		if same < 3 && self.violations.len() < 200 {
			eprintln!("VIOL {} {} :: {}", self.prop, sig, msg);
			self.violations.push(Violation { sig: sig.to_string(), msg, replay });
		}
		self.add(&format!("viol:{sig}"), 1);
	}

	/// A required observation did not happen: the run is inconclusive, not a pass.
	pub fn require(&mut self, ok: bool, what: &str) {
		if !ok {
			self.missing.push(what.to_string());
		}
	}

	/// Announce the case about to run (only in trace mode, used after an abnormal exit).
	pub fn begin(&self, desc: impl FnOnce() -> String) {
		if let Some(p) = &self.trace_path {
			if let Ok(mut f) = std::fs::OpenOptions::new().create(true).write(true).truncate(true).open(p) {
				let _ = f.write_all(desc().as_bytes());
			}
		}
	}

	pub fn to_json(&self) -> String {
		let counters = {
			let mut o = String::from("{");
			for (i, (k, v)) in self.counters.iter().enumerate() {
				if i > 0 {
					o.push(',');
				}
				let _ = write!(o, "{}:{}", jstr(k), v);
			}
			o.push('}');
			o
		};
		let samples = format!("[{}]", self.samples.join(","));
		let viols = format!(
			"[{}]",
			self.violations
				.iter()
				.map(|v| jobj(&[("sig", jstr(&v.sig)), ("msg", jstr(&v.msg)), ("replay", v.replay.clone())]))
				.collect::<Vec<_>>()
				.join(",")
		);
		let missing = format!("[{}]", self.missing.iter().map(|m| jstr(m)).collect::<Vec<_>>().join(","));
		jobj(&[
			("prop", jstr(&self.prop)),
			("evaluations", self.evaluations.to_string()),
			("distinct_nontrivial", (self.distinct.len() as u64 + self.distinct_enumerated).to_string()),
			("distinct_uncounted_beyond_cap", self.distinct_overflow.to_string()),
			("counters", counters),
			("samples", samples),
			("violations", viols),
			("violations_total", self.viol_total.to_string()),
			("missing", missing),
		])
	}

	pub fn write(&self, path: &str) {
		let tmp = format!("{path}.tmp");
		std::fs::write(&tmp, self.to_json()).expect("write report");
		std::fs::rename(&tmp, path).expect("rename report");
	}
}

/// Run `f`, turning a panic into `Err(message)`. The default panic hook output is suppressed for
/// expected panics by the binary's own hook.
pub fn catch<R>(f: impl FnOnce() -> R) -> Result<R, String> {
	match std::panic::catch_unwind(std::panic::AssertUnwindSafe(f)) {
		Ok(r) => Ok(r),
		Err(e) => Err(if let Some(s) = e.downcast_ref::<&str>() {
			s.to_string()
		} else if let Some(s) = e.downcast_ref::<String>() {
			s.clone()
		} else {
			"non-string panic".to_string()
		}),
	}
}

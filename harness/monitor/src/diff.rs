//! Shared judgement helpers: comparing a decoder with the reference decoder on one byte string,
//! comparing produced bytes with the reference encoding, witness / sample rendering.

use crate::model::*;
use crate::ops::TypeOps;
use crate::report::{catch, hash64, jobj, jstr, Report};

pub fn key(ops: &TypeOps, bytes: &[u8]) -> u64 {
	hash64(&(ops.name, bytes))
}

pub fn replay_json(prop: &str, ops: &TypeOps, bytes: &[u8], extra: &[(&str, String)]) -> String {
	let mut f = vec![("property", jstr(prop)), ("type", jstr(ops.name)), ("bytes", jstr(&hex(bytes)))];
	for (k, v) in extra {
		f.push((k, v.clone()));
	}
	jobj(&f)
}

pub fn sample_json(ops: &TypeOps, what: &str, bytes: &[u8], note: &str) -> String {
	jobj(&[("type", jstr(ops.name)), ("case", jstr(what)), ("bytes", jstr(&hex(&bytes[..bytes.len().min(48)]))), ("len", bytes.len().to_string()), ("note", jstr(note))])
}

/// Compare a decoded value (already converted to `Val` by the bridge) with the model's value,
/// both brought to the real type's canonical form.
pub fn same_val(ops: &TypeOps, model: &Val, real: &Val) -> bool {
	let m = (ops.canon)(model);
	m == *real || m == (ops.canon)(real)
}

/// For types containing heaps the byte order of elements is unspecified: compare as a multiset by
/// decoding the produced bytes with the model.
pub fn bytes_conform(ops: &TypeOps, val: &Val, spec: &[u8], real: &[u8]) -> Result<(), String> {
	if real == spec {
		return Ok(());
	}
	if ops.has_tag("heap") {
		if real.len() != spec.len() {
			return Err(format!("heap encoding has {} bytes, specification {}", real.len(), spec.len()));
		}
		return match spec_decode(&ops.ty, real) {
			Ok((v, used)) if used == real.len() && same_val(ops, &v, val) => Ok(()),
			Ok(_) => Err("heap encoding decodes to a different multiset".into()),
			Err(e) => Err(format!("heap encoding is not in the language: {:?}", e)),
		};
	}
	let i = real.iter().zip(spec).position(|(a, b)| a != b).unwrap_or(real.len().min(spec.len()));
	Err(format!(
		"bytes differ from the specification at offset {} (produced {} bytes, specified {}): produced ..{} specified ..{}",
		i,
		real.len(),
		spec.len(),
		hex(&real[i.saturating_sub(2)..real.len().min(i + 6)]),
		hex(&spec[i.saturating_sub(2)..spec.len().min(i + 6)])
	))
}


pub fn class_name(r: Reject) -> &'static str {
	match r {
		Reject::Eof => "eof",
		Reject::BadTag => "bad-tag",
		Reject::BadVariant => "bad-variant",
		Reject::BadUtf8 => "bad-utf8",
		Reject::ZeroNonZero => "zero-nonzero",
		Reject::Nanos => "nanos",
		Reject::NonCanonical => "non-canonical-compact",
		Reject::TooWide => "over-wide-compact",
		Reject::TooManyBits => "too-many-bits",
		Reject::Budget => "budget",
	}
}

/// Decide one byte string against the model. Returns false if the case was skipped.
pub fn c03_bytes(ops: &TypeOps, b: &[u8], origin: &str, rep: &mut Report) -> bool {
	model_differential(ops, b, origin, rep, "C03")
}

/// The decoder of `ops` against the reference decoder on one byte string (used by C03 and, for the
/// "bulk path == element-wise path" clause, by C07: the model decodes element by element).
pub fn model_differential(ops: &TypeOps, b: &[u8], origin: &str, rep: &mut Report, prop: &str) -> bool {
	let d = ops.d();
	let model = spec_decode(&ops.ty, b);
	if let Err(Reject::Budget) = model {
		rep.count("skipped_model_budget");
		return false;
	}
	rep.evaluations += 1;
	rep.count(&format!("origin:{origin}"));
	let real = catch(|| (d.slice)(b));
	let fail = |rep: &mut Report, sig: &str, msg: String| {
		rep.violation(
			&format!("{sig}:{}", ops.name),
			format!("{}: {} on input {} ({origin})", ops.name, msg, hex(&b[..b.len().min(80)])),
			replay_json(prop, ops, b, &[("origin", jstr(origin))]),
		)
	};
	match (&model, real) {
		(_, Err(p)) => fail(rep, "decode-panic", format!("decode panicked: {p}")),
		(Ok((mv, mused)), Ok((Some(rv), rused))) => {
			rep.count("accepted");
			if *mused >= 1 {
				rep.nontrivial(key(ops, b));
			}
			if !same_val(ops, mv, &rv) {
				fail(rep, "decode-value", format!("specification decodes {} but the crate returned {}", show_val(mv), show_val(&rv)));
			} else if *mused != rused {
				fail(rep, "decode-consumed", format!("specification consumes {mused} bytes, the crate {rused}"));
			}
		},
		(Ok((mv, _)), Ok((None, _))) => {
			fail(rep, "decode-rejects-valid", format!("a valid encoding of {} was rejected", show_val(mv)));
		},
		(Err(why), Ok((Some(rv), rused))) => {
			fail(rep, &format!("decode-accepts-invalid:{}", class_name(*why)), format!("malformed input ({}) was accepted as {} consuming {rused} bytes", class_name(*why), show_val(&rv)));
		},
		(Err(why), Ok((None, _))) => {
			rep.count("rejected");
			rep.count(&format!("rejected:{}", class_name(*why)));
			if !b.is_empty() {
				rep.nontrivial(key(ops, b));
			}
		},
	}
	// the shared-buffer entry point must be just as total (always for types holding `Bytes`,
	// sampled otherwise)
	if ops.has_tag("bytes") || (b.len() + rep.evaluations as usize) % 8 == 0 {
		rep.count("shared_buffer_decodes");
		match catch(|| (d.bytes)(b.to_vec())) {
			Err(p) => fail(rep, "decode-panic:decode_from_bytes", format!("decode_from_bytes panicked: {p}")),
			Ok(r) => {
				let accepted = r.is_some();
				if accepted != model.is_ok() {
					fail(rep, "decode-language:decode_from_bytes", format!("decode_from_bytes {} but the specification {}", if accepted { "accepts" } else { "rejects" }, if model.is_ok() { "accepts" } else { "rejects" }));
				}
			},
		}
	}
	// ... and so must a stream reader (an input that cannot tell its remaining length and may run dry
	// in the middle of a multi-byte request), sampled
	if (b.len() + rep.evaluations as usize) % 8 == 3 {
		rep.count("stream_reader_decodes");
		match catch(|| {
			let mut r = parity_scale_codec::IoReader(std::io::Cursor::new(b));
			(d.dynamic)(&mut r)
		}) {
			Err(p) => fail(rep, "decode-panic:IoReader", format!("decoding through IoReader panicked: {p}")),
			Ok(r) => match (&model, r) {
				(Ok((mv, _)), Some(rv)) =>
					if !same_val(ops, mv, &rv) {
						fail(rep, "decode-value:IoReader", format!("specification decodes {} but the crate, reading from IoReader, returned {}", show_val(mv), show_val(&rv)));
					},
				(Ok(_), None) => fail(rep, "decode-rejects-valid:IoReader", "a valid encoding was rejected when read through IoReader".into()),
				(Err(why), Some(rv)) => fail(rep, &format!("decode-accepts-invalid:IoReader:{}", class_name(*why)), format!("malformed input ({}) was accepted as {} when read through IoReader", class_name(*why), show_val(&rv))),
				(Err(_), None) => {},
			},
		}
	}
	if rep.want_sample() && b.len() >= 2 {
		rep.sample(sample_json(ops, origin, b, &format!("model: {}", match &model { Ok(_) => "accept".to_string(), Err(e) => class_name(*e).to_string() })));
	}
	true
}


//! Deterministic PRNG (SplitMix64 seeding a xoshiro256**). All randomness in the harness comes
//! from here, seeded from VERIF_SEED (+ shard index), so a run is reproducible from its seed.

#[derive(Clone)]
pub struct Rng {
	s: [u64; 4],
}

fn splitmix(x: &mut u64) -> u64 {
	*x = x.wrapping_add(0x9E3779B97F4A7C15);
	let mut z = *x;
	z = (z ^ (z >> 30)).wrapping_mul(0xBF58476D1CE4E5B9);
	z = (z ^ (z >> 27)).wrapping_mul(0x94D049BB133111EB);
	z ^ (z >> 31)
}

impl Rng {
	pub fn new(seed: u64) -> Self {
		let mut x = seed;
		let s = [splitmix(&mut x), splitmix(&mut x), splitmix(&mut x), splitmix(&mut x)];
		Rng { s }
	}

	/// Derive an independent stream (for a shard, a type, ...).
	pub fn fork(&mut self, salt: u64) -> Rng {
		let a = self.next_u64();
		Rng::new(a ^ salt.wrapping_mul(0xD1342543DE82EF95))
	}

	pub fn next_u64(&mut self) -> u64 {
		let r = self.s[1].wrapping_mul(5).rotate_left(7).wrapping_mul(9);
		let t = self.s[1] << 17;
		self.s[2] ^= self.s[0];
		self.s[3] ^= self.s[1];
		self.s[1] ^= self.s[2];
		self.s[0] ^= self.s[3];
		self.s[2] ^= t;
		self.s[3] = self.s[3].rotate_left(45);
		r
	}

	pub fn next_u128(&mut self) -> u128 {
		((self.next_u64() as u128) << 64) | self.next_u64() as u128
	}

	/// Uniform in 0..n (n > 0).
	pub fn below(&mut self, n: u64) -> u64 {
		debug_assert!(n > 0);
		// Multiply-shift; bias is irrelevant for workload generation.
		((self.next_u64() as u128 * n as u128) >> 64) as u64
	}

	pub fn usize_below(&mut self, n: usize) -> usize {
		self.below(n as u64) as usize
	}

	/// Inclusive range.
	pub fn range(&mut self, lo: u64, hi: u64) -> u64 {
		lo + self.below(hi - lo + 1)
	}

	pub fn chance(&mut self, num: u64, den: u64) -> bool {
		self.below(den) < num
	}

	pub fn byte(&mut self) -> u8 {
		self.next_u64() as u8
	}

	pub fn pick<'a, T>(&mut self, xs: &'a [T]) -> &'a T {
		&xs[self.usize_below(xs.len())]
	}

	pub fn bytes(&mut self, n: usize) -> Vec<u8> {
		let mut v = Vec::with_capacity(n);
		while v.len() + 8 <= n {
			v.extend_from_slice(&self.next_u64().to_le_bytes());
		}
		while v.len() < n {
			v.push(self.byte());
		}
		v
	}
}

//! C06 (layout / history independence), C13 (declared lengths), C15 (append), C16 (EncodeLike).

use crate::common::*;
use universe::derived::*;
use bitvec::prelude::*;
use monitor::bridge::{Modelled, OrderInfo};
use monitor::model::*;
use monitor::report::{catch, hash64, jobj, jstr, Report};
use monitor::rng::Rng;
use parity_scale_codec::{Compact, CompactRef, Decode, Encode, EncodeAppend, EncodeLike, Ref};
use std::borrow::Cow;
use std::collections::{BTreeMap, BTreeSet, BinaryHeap, LinkedList, VecDeque};
use std::rc::Rc;
use std::sync::Arc;

fn gen_of<T: Modelled>(rng: &mut Rng) -> T {
	let mut g = monitor::gen::Gen::small(rng);
	T::from_val(&g.val(&T::ty()))
}

/// two equal values built independently from one generated model value
fn gen_pair<T: Modelled>(rng: &mut Rng) -> (T, T) {
	let mut g = monitor::gen::Gen::small(rng);
	let v = g.val(&T::ty());
	(T::from_val(&v), T::from_val(&v))
}

fn differ(rep: &mut Report, sig: &str, what: String, got: &[u8], want: &[u8], history: &str) {
	rep.violation(
		sig,
		format!("{what}: encoded {} but the freshly built equal value / specification gives {} (history: {history})", hex(&got[..got.len().min(64)]), hex(&want[..want.len().min(64)])),
		jobj(&[("property", jstr("C06")), ("what", jstr(&what)), ("history", jstr(history)), ("expected", jstr(&hex(want)))]),
	);
}

// ------------------------------------------------------------------------------------------
// C06

fn deque_histories<T>(tname: &'static str, rng: &mut Rng, rounds: u64, rep: &mut Report)
where
	T: Modelled + Encode + Clone,
{
	let vty = <Vec<T>>::ty();
	let mut sigs = std::collections::HashSet::new();
	let mut wrapped = 0u64;
	for _ in 0..rounds {
		let cap = *rng.pick(&[0usize, 1, 2, 3, 4, 7, 8, 16, 33]);
		let mut dq: VecDeque<T> = VecDeque::with_capacity(cap);
		let mut hist = String::new();
		let steps = rng.range(1, 200);
		for step in 0..steps {
			let op = rng.below(16);
			match op {
				0 | 1 | 2 => {
					dq.push_back(gen_of(rng));
					hist.push('b');
				},
				3 | 4 => {
					dq.push_front(gen_of(rng));
					hist.push('f');
				},
				5 => {
					dq.pop_front();
					hist.push('F');
				},
				6 => {
					dq.pop_back();
					hist.push('B');
				},
				7 if !dq.is_empty() => {
					let k = rng.usize_below(dq.len());
					dq.rotate_left(k);
					hist.push('l');
				},
				8 if !dq.is_empty() => {
					let k = rng.usize_below(dq.len());
					dq.rotate_right(k);
					hist.push('r');
				},
				9 => {
					if rng.chance(1, 4) {
						dq.make_contiguous();
						hist.push('c');
					}
				},
				10 => {
					dq.reserve(rng.usize_below(20));
					hist.push('R');
				},
				11 => {
					if rng.chance(1, 3) {
						dq.shrink_to_fit();
						hist.push('s');
					}
				},
				12 => {
					let k = rng.usize_below(dq.len() + 1);
					dq.truncate(k);
					hist.push('t');
				},
				13 => {
					let n = rng.usize_below(6);
					dq.extend((0..n).map(|_| gen_of::<T>(rng)));
					hist.push('e');
				},
				14 if !dq.is_empty() => {
					let a = rng.usize_below(dq.len());
					let b = a + rng.usize_below(dq.len() - a + 1);
					dq.drain(a..b);
					hist.push('d');
				},
				_ if !dq.is_empty() => {
					let i = rng.usize_below(dq.len() + 1);
					dq.insert(i, gen_of(rng));
					hist.push('i');
				},
				_ => {},
			}
			if step % 3 != 0 && step + 1 != steps {
				continue;
			}
			rep.evaluations += 1;
			let (h, t) = dq.as_slices();
			if !t.is_empty() {
				wrapped += 1;
			}
			sigs.insert((h.len().min(40), t.len().min(40), dq.capacity().min(1 << 30).next_power_of_two().trailing_zeros()));
			let logical: Vec<T> = dq.iter().cloned().collect();
			let want = spec_encode(&vty, &logical.to_val());
			let got = dq.encode();
			let fresh = logical.encode();
			if got.len() >= 2 {
				rep.nontrivial(hash64(&(tname, &got, h.len(), t.len())));
			}
			if got != want || fresh != want {
				differ(rep, &format!("layout-dependence:VecDeque<{tname}>"), format!("VecDeque<{tname}> with slices ({}, {})", h.len(), t.len()), &got, &want, &hist);
			}
			if dq.encode() != got {
				differ(rep, &format!("nondeterministic:VecDeque<{tname}>"), format!("VecDeque<{tname}> encoded twice"), &dq.encode(), &got, &hist);
			}
		}
	}
	rep.add(&format!("deque_wrapped_states:{tname}"), wrapped);
	rep.add("deque_types_with_wrapped_states", (wrapped > 0) as u64);
	rep.add("deque_layout_signatures", sigs.len() as u64);
}

fn vec_histories<T>(tname: &'static str, rng: &mut Rng, rounds: u64, rep: &mut Report)
where
	T: Modelled + Encode + Clone,
{
	let vty = <Vec<T>>::ty();
	for _ in 0..rounds {
		let mut v: Vec<T> = Vec::with_capacity(rng.usize_below(40));
		let mut hist = String::new();
		for _ in 0..rng.range(1, 60) {
			match rng.below(7) {
				0..=2 => {
					v.push(gen_of(rng));
					hist.push('p');
				},
				3 => {
					v.pop();
					hist.push('P');
				},
				4 => {
					v.reserve(rng.usize_below(100));
					hist.push('R');
				},
				5 => {
					v.shrink_to_fit();
					hist.push('s');
				},
				_ => {
					let k = rng.usize_below(v.len() + 1);
					v.truncate(k);
					hist.push('t');
				},
			}
		}
		rep.evaluations += 1;
		rep.count("vec_histories");
		let fresh: Vec<T> = v.iter().cloned().collect::<Vec<_>>().into_boxed_slice().into_vec();
		let want = spec_encode(&vty, &v.to_val());
		let got = v.encode();
		if got.len() >= 2 {
			rep.nontrivial(hash64(&(tname, &got, v.capacity())));
		}
		if got != want || fresh.encode() != want {
			differ(rep, &format!("layout-dependence:Vec<{tname}>"), format!("Vec<{tname}> len {} capacity {}", v.len(), v.capacity()), &got, &want, &hist);
		}
	}
}

fn string_histories(rng: &mut Rng, rounds: u64, rep: &mut Report) {
	for _ in 0..rounds {
		let mut s = String::with_capacity(rng.usize_below(50));
		let mut hist = String::new();
		for _ in 0..rng.range(1, 40) {
			match rng.below(6) {
				0..=2 => {
					s.push(*rng.pick(&['a', 'é', '€', '😀', '\0', 'z']));
					hist.push('p');
				},
				3 => {
					s.pop();
					hist.push('P');
				},
				4 => {
					s.reserve(rng.usize_below(200));
					hist.push('R');
				},
				_ => {
					s.shrink_to_fit();
					hist.push('s');
				},
			}
		}
		rep.evaluations += 1;
		rep.count("string_histories");
		let want = spec_encode(&Ty::Str, &Val::Str(s.clone()));
		let got = s.encode();
		if got.len() >= 2 {
			rep.nontrivial(hash64(&("String", &got, s.capacity())));
		}
		let cb: Cow<'_, str> = Cow::Borrowed(&s);
		let co: Cow<'_, str> = Cow::Owned(s.clone());
		if got != want || s.as_str().encode() != want || cb.encode() != want || co.encode() != want || s.clone().into_boxed_str().encode() != want {
			differ(rep, "layout-dependence:String", format!("String len {} capacity {}", s.len(), s.capacity()), &got, &want, &hist);
		}
	}
}

fn map_histories(rng: &mut Rng, rounds: u64, rep: &mut Report) {
	let mty = <BTreeMap<u16, u8>>::ty();
	let sty = <BTreeSet<u16>>::ty();
	// all insertion orders of up to 6 keys
	fn permute(keys: &mut Vec<u16>, k: usize, out: &mut Vec<Vec<u16>>) {
		if k == keys.len() {
			out.push(keys.clone());
			return;
		}
		for i in k..keys.len() {
			keys.swap(k, i);
			permute(keys, k + 1, out);
			keys.swap(k, i);
		}
	}
	for n in 0..=6usize {
		let mut keys: Vec<u16> = (0..n).map(|_| rng.below(1000) as u16).collect();
		keys.sort();
		keys.dedup();
		let mut perms = Vec::new();
		permute(&mut keys.clone(), 0, &mut perms);
		let want_m = {
			let m: BTreeMap<u16, u8> = keys.iter().map(|k| (*k, (*k % 251) as u8)).collect();
			spec_encode(&mty, &m.to_val())
		};
		let want_s = {
			let s: BTreeSet<u16> = keys.iter().copied().collect();
			spec_encode(&sty, &s.to_val())
		};
		for p in perms {
			rep.evaluations += 1;
			rep.count("map_permutations");
			let mut m = BTreeMap::new();
			let mut s = BTreeSet::new();
			for k in &p {
				m.insert(*k, (*k % 251) as u8);
				s.insert(*k);
			}
			rep.nontrivial(hash64(&("perm", &p)));
			if m.encode() != want_m {
				differ(rep, "layout-dependence:BTreeMap", format!("BTreeMap<u16,u8> inserted in order {:?}", p), &m.encode(), &want_m, "insert");
			}
			if s.encode() != want_s {
				differ(rep, "layout-dependence:BTreeSet", format!("BTreeSet<u16> inserted in order {:?}", p), &s.encode(), &want_s, "insert");
			}
		}
	}
	// random insert / remove histories up to 2000 keys
	for _ in 0..rounds {
		let mut m: BTreeMap<u16, u8> = BTreeMap::new();
		let mut s: BTreeSet<u16> = BTreeSet::new();
		let n = if rng.chance(1, 10) { 2000 } else { rng.range(1, 120) };
		let span = *rng.pick(&[16u64, 300, 5000]);
		for _ in 0..n {
			let k = rng.below(span) as u16;
			if rng.chance(1, 4) {
				m.remove(&k);
				s.remove(&k);
			} else {
				m.insert(k, rng.byte());
				s.insert(k);
			}
		}
		rep.evaluations += 1;
		rep.count("map_histories");
		let fresh_m: BTreeMap<u16, u8> = m.iter().map(|(k, v)| (*k, *v)).collect();
		let want = spec_encode(&mty, &fresh_m.to_val());
		rep.nontrivial(hash64(&("maphist", &want)));
		if m.encode() != want || fresh_m.encode() != want {
			differ(rep, "layout-dependence:BTreeMap", format!("BTreeMap<u16,u8> after {n} random inserts/removes"), &m.encode(), &want, "random");
		}
		let fresh_s: BTreeSet<u16> = s.iter().copied().collect();
		let want = spec_encode(&sty, &fresh_s.to_val());
		if s.encode() != want {
			differ(rep, "layout-dependence:BTreeSet", format!("BTreeSet<u16> after {n} random inserts/removes"), &s.encode(), &want, "random");
		}
	}
}

fn list_histories(rng: &mut Rng, rounds: u64, rep: &mut Report) {
	let lty = <LinkedList<u16>>::ty();
	for _ in 0..rounds {
		let mut l: LinkedList<u16> = LinkedList::new();
		let mut hist = String::new();
		for _ in 0..rng.range(1, 60) {
			match rng.below(7) {
				0 | 1 => {
					l.push_back(rng.below(65536) as u16);
					hist.push('b');
				},
				2 => {
					l.push_front(rng.below(65536) as u16);
					hist.push('f');
				},
				3 => {
					l.pop_front();
					hist.push('F');
				},
				4 => {
					l.pop_back();
					hist.push('B');
				},
				5 => {
					let at = rng.usize_below(l.len() + 1);
					let mut tail = l.split_off(at);
					if rng.chance(1, 2) {
						tail.append(&mut l);
						l = tail;
					} else {
						l.append(&mut tail);
					}
					hist.push('x');
				},
				_ => {
					let mut other: LinkedList<u16> = (0..rng.below(4)).map(|i| i as u16).collect();
					l.append(&mut other);
					hist.push('a');
				},
			}
		}
		rep.evaluations += 1;
		rep.count("list_histories");
		let fresh: LinkedList<u16> = l.iter().copied().collect();
		let want = spec_encode(&lty, &fresh.to_val());
		if want.len() >= 2 {
			rep.nontrivial(hash64(&("list", &want, &hist)));
		}
		if l.encode() != want || fresh.encode() != want {
			differ(rep, "layout-dependence:LinkedList", format!("LinkedList<u16> len {}", l.len()), &l.encode(), &want, &hist);
		}
	}
}

fn bit_histories<S: BitStore + Encode, O: BitOrder + OrderInfo>(name: &'static str, rng: &mut Rng, rounds: u64, coarse: bool, rep: &mut Report)
where
	BitVec<S, O>: Encode,
{
	let w = core::mem::size_of::<S>() * 8;
	let ty = Ty::Bits { store_bytes: (w / 8) as u8, msb0: O::MSB0, boxed: false };
	let check = |rep: &mut Report, bits: Vec<bool>, got: Vec<u8>, what: &str, hist: &str| {
		rep.evaluations += 1;
		let want = spec_encode(&ty, &Val::Bits(bits));
		if got.len() >= 2 {
			rep.nontrivial(hash64(&(name, &got, what, hist.len())));
		}
		if got != want {
			differ(rep, &format!("layout-dependence:bits:{name}"), format!("{name} {what}"), &got, &want, hist);
		}
	};
	// every head offset inside the store word x every length 0..130
	for off in 0..w {
		// under an interpreter: every offset, every 9th length (plus the word boundaries)
		for len in (0..=130usize).filter(|l| !coarse || l % 9 == 0 || *l == w - 1 || *l == w || *l == w + 1) {
			if coarse && off % 3 != 0 && off != w - 1 {
				continue;
			}
			let mut owner: BitVec<S, O> = BitVec::with_capacity(off + len + 3);
			for i in 0..off + len + 3 {
				owner.push((rng.next_u64() >> (i % 64)) & 1 == 1);
			}
			let slice = &owner[off..off + len];
			let bits: Vec<bool> = slice.iter().by_vals().collect();
			rep.count("bit_offset_length_cases");
			check(rep, bits.clone(), slice.encode(), "sub-slice", &format!("offset {off} len {len}"));
			let copy = BitVec::<S, O>::from_bitslice(slice);
			check(rep, bits.clone(), copy.encode(), "BitVec::from_bitslice(sub-slice)", &format!("offset {off} len {len}"));
			let boxed = copy.clone().into_boxed_bitslice();
			check(rep, bits, boxed.encode(), "BitBox of sub-slice", &format!("offset {off} len {len}"));
		}
	}
	// mutation histories
	for _ in 0..rounds {
		let mut bv: BitVec<S, O> = BitVec::new();
		let mut hist = String::new();
		for _ in 0..rng.range(1, 80) {
			match rng.below(11) {
				0..=3 => {
					bv.push(rng.chance(1, 2));
					hist.push('p');
				},
				4 => {
					bv.pop();
					hist.push('P');
				},
				5 => {
					let k = rng.usize_below(bv.len() + 1);
					bv.truncate(k);
					hist.push('t');
				},
				6 if !bv.is_empty() => {
					let at = rng.usize_below(bv.len() + 1);
					let tail = bv.split_off(at);
					if rng.chance(1, 2) {
						bv = tail;
					}
					hist.push('x');
				},
				7 if !bv.is_empty() => {
					let a = rng.usize_below(bv.len());
					let b = a + rng.usize_below(bv.len() - a + 1);
					bv.drain(a..b);
					hist.push('d');
				},
				8 if !bv.is_empty() => {
					let k = rng.usize_below(bv.len());
					if rng.chance(1, 2) {
						bv.shift_left(k);
					} else {
						bv.shift_right(k);
					}
					hist.push('s');
				},
				9 => {
					let i = rng.usize_below(bv.len() + 1);
					bv.insert(i, true);
					hist.push('i');
				},
				_ => {
					let n = rng.usize_below(70);
					bv.extend((0..n).map(|_| true));
					let k = bv.len() - rng.usize_below(n + 1);
					bv.truncate(k);
					hist.push('e');
				},
			}
		}
		rep.count("bit_histories");
		let bits: Vec<bool> = bv.iter().by_vals().collect();
		check(rep, bits.clone(), bv.encode(), "after mutation history", &hist);
		check(rep, bits.clone(), bv.as_bitslice().encode(), "as_bitslice after history", &hist);
		let fresh: BitVec<S, O> = bits.iter().copied().collect();
		check(rep, bits, fresh.encode(), "fresh", &hist);
	}
}

fn holders<T>(tname: &'static str, rng: &mut Rng, n: u64, rep: &mut Report)
where
	T: Modelled + Encode + Clone + EncodeLike,
{
	let ty = T::ty();
	for _ in 0..n {
		let mut v: T = gen_of(rng);
		let want = spec_encode(&ty, &v.to_val());
		let plain = v.encode();
		rep.evaluations += 1;
		rep.count("holder_cases");
		if want.len() >= 2 {
			rep.nontrivial(hash64(&(tname, &want)));
		}
		let mut forms: Vec<(&str, Vec<u8>)> = vec![
			("T", plain.clone()),
			("&T", (&v).encode()),
			("&&T", (&&v).encode()),
			("Box<T>", Box::new(v.clone()).encode()),
			("Rc<T>", Rc::new(v.clone()).encode()),
			("Arc<T>", Arc::new(v.clone()).encode()),
			("Cow::Borrowed", Cow::Borrowed(&v).encode()),
			("Cow::Owned", Cow::<'_, T>::Owned(v.clone()).encode()),
			("Ref", Ref::<'_, T, T>::from(&v).encode()),
			("&Box<T>", (&Box::new(v.clone())).encode()),
			("Rc clone", {
				let a = Rc::new(v.clone());
				let b = a.clone();
				let _keep = a;
				b.encode()
			}),
			("second encode", v.encode()),
		];
		forms.push(("&mut T", (&mut v).encode()));
		for (form, got) in forms {
			if got != want {
				differ(rep, &format!("holder:{form}:{tname}"), format!("{form} holding a {tname}"), &got, &want, "holder");
			}
		}
	}
}

/// Sequences OF holders must encode like the sequence of plain values.
fn holder_sequences<T>(tname: &'static str, rng: &mut Rng, n: u64, rep: &mut Report)
where
	T: Modelled + Encode + Clone + EncodeLike,
{
	let vty = <Vec<T>>::ty();
	for _ in 0..n {
		let len = *rng.pick(&[0usize, 1, 2, 3, 5, 8, 17, 33]);
		let vals: Vec<T> = (0..len).map(|_| gen_of(rng)).collect();
		let want = spec_encode(&vty, &vals.to_val());
		rep.evaluations += 1;
		rep.count("holder_sequence_cases");
		if want.len() >= 2 {
			rep.nontrivial(hash64(&(tname, "hseq", &want)));
		}
		let refs: Vec<&T> = vals.iter().collect();
		let boxes: Vec<Box<T>> = vals.iter().cloned().map(Box::new).collect();
		let rcs: VecDeque<Rc<T>> = vals.iter().cloned().map(Rc::new).collect();
		let arcs: Vec<Arc<T>> = vals.iter().cloned().map(Arc::new).collect();
		let cows: Vec<Cow<'_, T>> = vals.iter().map(Cow::Borrowed).collect();
		let mut forms: Vec<(&str, Vec<u8>)> = vec![
			("Vec<&T>", refs.encode()),
			("&[&T]", (&refs[..]).encode()),
			("Vec<Box<T>>", boxes.encode()),
			("VecDeque<Rc<T>>", rcs.encode()),
			("Vec<Arc<T>>", arcs.encode()),
			("Vec<Cow<T>>", cows.encode()),
			("Vec<&&T>", refs.iter().collect::<Vec<&&T>>().encode()),
		];
		if len == 3 {
			let a: [Rc<T>; 3] = [Rc::new(vals[0].clone()), Rc::new(vals[1].clone()), Rc::new(vals[2].clone())];
			let mut arr_want = Vec::new();
			for v in &vals {
				arr_want.extend_from_slice(&spec_encode(&T::ty(), &v.to_val()));
			}
			if a.encode() != arr_want {
				differ(rep, &format!("holder-sequence:[Rc<T>;3]:{tname}"), format!("[Rc<{tname}>; 3]"), &a.encode(), &arr_want, "holders");
			}
			let b: [&T; 3] = [&vals[0], &vals[1], &vals[2]];
			if b.encode() != arr_want {
				differ(rep, &format!("holder-sequence:[&T;3]:{tname}"), format!("[&{tname}; 3]"), &b.encode(), &arr_want, "holders");
			}
		}
		for (form, got) in forms.drain(..) {
			if got != want {
				differ(rep, &format!("holder-sequence:{form}:{tname}"), format!("{form} with T = {tname}, {len} elements"), &got, &want, "holders");
			}
		}
	}
}

pub fn c06(ctx: &Ctx) {
	let mut rep = Report::new("C06");
	let rounds = ctx.budget(2500, 120_000);
	let mut job = 0usize;
	let mut mine = |job: &mut usize| {
		let m = *job % ctx.nshards == ctx.shard;
		*job += 1;
		m
	};
	macro_rules! deques {
		($($t:ty),*) => {$(
			if mine(&mut job) {
				let mut rng = ctx.rng_for(concat!("deque:", stringify!($t)));
				deque_histories::<$t>(stringify!($t), &mut rng, rounds, &mut rep);
			}
			if mine(&mut job) {
				let mut rng = ctx.rng_for(concat!("vec:", stringify!($t)));
				vec_histories::<$t>(stringify!($t), &mut rng, rounds * 2, &mut rep);
			}
		)*}
	}
	deques!(u8, i8, u16, i16, u32, i32, u64, i64, u128, i128, f32, f64, String, (u8, u16), (), Option<u32>, Only, Marker, [u8; 3], BeU32);
	macro_rules! hseq {
		($($t:ty),*) => {$(
			if mine(&mut job) {
				let mut rng = ctx.rng_for(concat!("hseq:", stringify!($t)));
				holder_sequences::<$t>(stringify!($t), &mut rng, rounds * 2, &mut rep);
			}
		)*}
	}
	hseq!(u8, i8, u16, i16, u32, i32, u64, i64, u128, i128, f32, f64, bool, String, Only, (u8, u16));
	if mine(&mut job) {
		string_histories(&mut ctx.rng_for("string"), rounds * 10, &mut rep);
	}
	if mine(&mut job) {
		map_histories(&mut ctx.rng_for("maps"), rounds * 5, &mut rep);
	}
	if mine(&mut job) {
		list_histories(&mut ctx.rng_for("lists"), rounds * 10, &mut rep);
	}
	macro_rules! bits {
		($(($s:ty, $o:ty)),*) => {$(
			if mine(&mut job) {
				let mut rng = ctx.rng_for(concat!("bits:", stringify!($s), stringify!($o)));
				bit_histories::<$s, $o>(concat!("BitVec<", stringify!($s), ",", stringify!($o), ">"), &mut rng, rounds * 4, ctx.is_slow(), &mut rep);
			}
		)*}
	}
	bits!((u8, Lsb0), (u8, Msb0), (u16, Lsb0), (u16, Msb0), (u32, Lsb0), (u32, Msb0));
	#[cfg(target_pointer_width = "64")]
	bits!((u64, Lsb0), (u64, Msb0));
	macro_rules! hold {
		($($t:ty),*) => {$(
			if mine(&mut job) {
				let mut rng = ctx.rng_for(concat!("hold:", stringify!($t)));
				holders::<$t>(stringify!($t), &mut rng, rounds * 5, &mut rep);
			}
		)*}
	}
	hold!(u8, u64, i128, f64, bool, (), String, Vec<u8>, Vec<u32>, Vec<String>, (u8, Vec<u16>), Option<Vec<u8>>, [u16; 5], BTreeMap<u8, String>, VecDeque<u32>, Compact<u64>, BitVec<u8, Lsb0>, Result<u8, String>, LinkedList<u8>, BTreeSet<u32>);
	finish(ctx, &rep);
}

// ------------------------------------------------------------------------------------------
// C13

fn max_val(ty: &Ty, depth: u32) -> Option<Val> {
	if depth > 10 {
		return None;
	}
	Some(match ty {
		Ty::Int { bytes, .. } | Ty::NonZero { bytes, .. } => Val::Int(mask(*bytes)),
		Ty::F32 | Ty::F64 => Val::Int(0x7fc0_0000),
		Ty::Bool => Val::Bool(true),
		Ty::Unit => Val::Unit,
		Ty::Compact { bits } => Val::Int(mask(bits / 8)),
		Ty::Option(t) => Val::Opt(Some(Box::new(max_val(t, depth + 1)?))),
		Ty::Result(a, b) =>
			if a.max_len()? >= b.max_len()? {
				Val::Res(Ok(Box::new(max_val(a, depth + 1)?)))
			} else {
				Val::Res(Err(Box::new(max_val(b, depth + 1)?)))
			},
		Ty::OptionBool => Val::OptBool(Some(true)),
		Ty::Array(e, n) => Val::Seq((0..*n).map(|_| max_val(e, depth + 1)).collect::<Option<Vec<_>>>()?),
		Ty::Tuple(ts) => Val::Tuple(ts.iter().map(|t| max_val(t, depth + 1)).collect::<Option<Vec<_>>>()?),
		Ty::Duration => Val::Tuple(vec![Val::Int(u64::MAX as u128), Val::Int(999_999_999)]),
		Ty::Ptr(t, _) => max_val(t, depth + 1)?,
		Ty::Struct { fields, .. } => Val::Tuple(
			fields
				.iter()
				.map(|f| match &f.wire {
					Some(w) => max_val(w, depth + 1),
					None => Some(Val::Unit),
				})
				.collect::<Option<Vec<_>>>()?,
		),
		Ty::Enum { variants, .. } => {
			let mut best: Option<(usize, usize)> = None;
			for (i, v) in variants.iter().enumerate().filter(|(_, v)| !v.skipped) {
				let mut l = 1;
				for f in &v.fields {
					if let Some(w) = &f.wire {
						l += w.max_len()?;
					}
				}
				if best.map_or(true, |(_, bl)| l > bl) {
					best = Some((i, l));
				}
			}
			let (i, _) = best?;
			Val::Variant(
				i,
				variants[i]
					.fields
					.iter()
					.map(|f| match &f.wire {
						Some(w) => max_val(w, depth + 1),
						None => Some(Val::Unit),
					})
					.collect::<Option<Vec<_>>>()?,
			)
		},
		Ty::Named(_) | Ty::Seq { .. } | Ty::Map(..) | Ty::Str | Ty::Bits { .. } => return None,
	})
}

pub fn c13(ctx: &Ctx) {
	let mut rep = Report::new("C13");
	let n = ctx.budget(4000, 400_000);
	for ops in ctx.my_types() {
		let fixed = ops.dec.as_ref().and_then(|d| (d.fixed)());
		if ops.mel.is_none() && fixed.is_none() {
			continue;
		}
		note_types(&mut rep, ops);
		if ops.mel.is_some() {
			rep.count("types_with_declared_max");
		}
		if ops.cel {
			rep.count("types_marked_constant");
		}
		if fixed.is_some() {
			rep.count("types_with_fixed_size");
		}
		let declared = ops.mel.map(|f| f());
		let mut rng = ctx.rng_for(ops.name);
		let mut check = |val: &Val, what: &str, rep: &mut Report| {
			let enc = match catch(|| (ops.enc_plain)(val)) {
				Ok(e) => e,
				Err(_) => return,
			};
			rep.evaluations += 1;
			if enc.len() >= 2 {
				rep.nontrivial(key(ops, &enc));
			}
			let wit = || replay_json("C13", ops, &enc, &[("declared_max", format!("{:?}", declared).replace("Some(", "").replace(')', "").replace("None", "null")), ("case", jstr(what))]);
			if let Some(m) = declared {
				if enc.len() > m {
					rep.violation(&format!("max-encoded-len:{}", ops.name), format!("{}: {} encodes to {} bytes but max_encoded_len() = {m} ({what})", ops.name, show_val(val), enc.len()), wit());
				}
				if enc.len() == m {
					rep.count("bound_attained");
				}
				if ops.cel && enc.len() != m {
					rep.violation(&format!("const-encoded-len:{}", ops.name), format!("{}: marked ConstEncodedLen with length {m}, but {} encodes to {} bytes", ops.name, show_val(val), enc.len()), wit());
				}
			}
			if let Some(s) = fixed {
				if enc.len() != s {
					rep.violation(&format!("encoded-fixed-size:{}", ops.name), format!("{}: encoded_fixed_size() = {s} but {} encodes to {} bytes", ops.name, show_val(val), enc.len()), wit());
				}
			}
			if rep.want_sample() && enc.len() >= 2 {
				rep.sample(jobj(&[("type", jstr(ops.name)), ("bytes", jstr(&hex(&enc[..enc.len().min(40)]))), ("len", enc.len().to_string()), ("declared_max", format!("{:?}", declared).replace("Some(", "").replace(')', "").replace("None", "null")), ("fixed", format!("{:?}", fixed).replace("Some(", "").replace(')', "").replace("None", "null")), ("const", ops.cel.to_string())]));
			}
		};
		// the value the model says has the longest encoding
		if let Some(mv) = max_val(&ops.ty, 0) {
			let mv = (ops.canon)(&mv);
			rep.count("max_witnesses");
			check(&mv, "model's longest value", &mut rep);
			// the model's own maximum is a lower bound for any sound declaration
			if let (Some(m), Some(ml)) = (declared, ops.ty.max_len()) {
				if m < ml {
					rep.count("declared_below_model_max");
				}
			}
		}
		for i in 0..n {
			let case = gen_case(ops, &mut rng, i % 4 != 0);
			check(&case.val, "generated", &mut rep);
		}
	}
	finish(ctx, &rep);
}

// ------------------------------------------------------------------------------------------
// C15

trait AppendTarget {
	const NAME: &'static str;
}

fn compact_prefix_len(b: &[u8]) -> Option<(u64, usize)> {
	compact_decode(b, 32).ok().map(|(v, n)| (v as u64, n))
}

/// Histories over one item type: model = plain `Vec<T>` re-encoded.
fn append_histories<T>(tname: &'static str, rng: &mut Rng, rounds: u64, rep: &mut Report)
where
	T: Modelled + Encode + Clone + EncodeLike,
{
	let vty = <Vec<T>>::ty();
	for round in 0..rounds {
		let mut model: Vec<T> = Vec::new();
		// start state: empty input, or the encoding of an existing sequence near a width boundary
		let start_len = match rng.below(6) {
			0 => 0,
			1 => rng.usize_below(8),
			2 => 60 + rng.usize_below(6),
			_ => rng.usize_below(70),
		};
		for _ in 0..start_len {
			model.push(gen_of(rng));
		}
		let mut enc: Vec<u8> = if start_len == 0 && rng.chance(1, 2) { Vec::new() } else { model.encode() };
		let mut hist = format!("start {start_len}{}", if enc.is_empty() { " (empty input)" } else { "" });
		let steps = rng.range(1, if round % 10 == 0 { 200 } else { 12 });
		for _ in 0..steps {
			let bn = match rng.below(8) {
				0 => 0,
				1..=4 => rng.usize_below(4),
				5 => rng.usize_below(70),
				_ => 1,
			};
			let batch: Vec<T> = (0..bn).map(|_| gen_of(rng)).collect();
			let form = rng.below(5);
			let use_deque = rng.chance(1, 2);
			hist.push_str(&format!(" +{bn}{}", ["v", "r", "b", "R", "s"][form as usize]));
			let input = enc.clone();
			let r = catch(|| match (form, use_deque) {
				(0, false) => <Vec<T> as EncodeAppend>::append_or_new(input, batch.clone()),
				(0, true) => <VecDeque<T> as EncodeAppend>::append_or_new(input, batch.clone()),
				(1, false) => <Vec<T> as EncodeAppend>::append_or_new(input, batch.iter()),
				(1, true) => <VecDeque<T> as EncodeAppend>::append_or_new(input, batch.iter()),
				(2, false) => <Vec<T> as EncodeAppend>::append_or_new(input, batch.iter().cloned().map(Box::new).collect::<Vec<_>>()),
				(2, true) => <VecDeque<T> as EncodeAppend>::append_or_new(input, batch.iter().cloned().map(Box::new).collect::<Vec<_>>()),
				(3, false) => <Vec<T> as EncodeAppend>::append_or_new(input, batch.iter().map(|x| Ref::<'_, T, T>::from(x)).collect::<Vec<_>>()),
				(3, true) => <VecDeque<T> as EncodeAppend>::append_or_new(input, batch.iter().map(|x| Ref::<'_, T, T>::from(x)).collect::<Vec<_>>()),
				(_, false) => <Vec<T> as EncodeAppend>::append_or_new(input, &batch[..]),
				(_, true) => <VecDeque<T> as EncodeAppend>::append_or_new(input, &batch[..]),
			});
			model.extend(batch);
			rep.evaluations += 1;
			rep.count("appends");
			let want = spec_encode(&vty, &model.to_val());
			let wit = || jobj(&[("property", jstr("C15")), ("item", jstr(tname)), ("history", jstr(&hist)), ("expected", jstr(&hex(&want[..want.len().min(200)])))]);
			match r {
				Ok(Ok(got)) => {
					if got != want {
						rep.violation(
							&format!("append-differs:{tname}"),
							format!("append_or_new over {tname} ({} target): result {} differs from the re-encoded sequence {} (history: {hist})", if use_deque { "VecDeque" } else { "Vec" }, hex(&got[..got.len().min(48)]), hex(&want[..want.len().min(48)])),
							wit(),
						);
					}
					enc = got;
				},
				Ok(Err(e)) => {
					rep.violation(&format!("append-rejected:{tname}"), format!("append_or_new over {tname} failed on a valid sequence: {e} (history: {hist})"), wit());
					enc = want.clone();
				},
				Err(p) => {
					rep.violation(&format!("append-panic:{tname}"), format!("append_or_new over {tname} panicked: {p} (history: {hist})"), wit());
					enc = want.clone();
				},
			}
			let (cnt, _) = compact_prefix_len(&enc).unwrap_or((0, 0));
			let _ = cnt;
		}
		if model.len() >= 2 {
			rep.nontrivial(hash64(&(tname, &hist, &enc)));
			rep.count("histories_with_two_or_more_appends");
		}
		if rep.want_sample() {
			rep.sample(jobj(&[("item", jstr(tname)), ("history", jstr(&hist)), ("final_len", model.len().to_string()), ("final_bytes", jstr(&hex(&enc[..enc.len().min(32)])))]));
		}
	}
}

/// Width changes of the count prefix and the 2^32 limit, with zero-sized items (the encoding of a
/// `Vec<()>` is the count alone, so huge counts cost nothing).
fn append_boundaries(rep: &mut Report, thorough: bool) {
	let enc_count = |n: u128| {
		let mut v = Vec::new();
		compact_encode(n, &mut v);
		v
	};
	let mut cases: Vec<(u64, u64)> = Vec::new();
	for edge in [64u64, 1 << 14, 1 << 30] {
		for old in [edge - 3, edge - 2, edge - 1, edge, edge + 1] {
			for add in [0u64, 1, 2, 3, 5] {
				cases.push((old, add));
			}
		}
	}
	let top = u32::MAX as u64;
	for (old, add) in [(top - 2, 0), (top - 2, 1), (top - 2, 2), (top - 2, 3), (top - 1, 1), (top - 1, 2), (top, 0), (top, 1), (top - 5, 5), (top - 5, 6), (5, top - 5), (5, top - 4), (0, top), (0, top + 1), (5, (1 << 32) + 3), (0, 1 << 32), (1, (1 << 33) + 1), (top, top), (1 << 31, 1 << 31), ((1 << 31) - 1, 1 << 31)] {
		cases.push((old, add));
	}
	for (old, add) in cases {
		let input = enc_count(old as u128);
		let total = old + add;
		// iterating > 2^32 unit items is only attempted when a wrong `Ok` is possible, in thorough
		if add > (1 << 31) && !thorough && total > top {
			// still run: the call must fail before iterating; a wrong implementation loops over no-ops
		}
		rep.evaluations += 1;
		rep.count("boundary_cases");
		rep.nontrivial(hash64(&("boundary", old, add)));
		let r = catch(|| <Vec<()> as EncodeAppend>::append_or_new(input.clone(), (0..add as usize).map(|_| ())));
		let wit = || jobj(&[("property", jstr("C15")), ("item", jstr("()")), ("old_count", old.to_string()), ("appended", add.to_string())]);
		match r {
			Err(p) => rep.violation("append-panic:()", format!("appending {add} unit items to a sequence of {old}: panicked: {p}"), wit()),
			Ok(Ok(got)) =>
				if total > top {
					rep.violation(
						"append-count-overflow",
						format!("appending {add} unit items to an encoded sequence of {old} returned Ok({}) although the combined count {total} cannot be represented", hex(&got)),
						wit(),
					);
				} else if got != enc_count(total as u128) {
					rep.violation("append-differs:()", format!("appending {add} unit items to {old}: got {} expected {}", hex(&got), hex(&enc_count(total as u128))), wit());
				} else {
					rep.count("boundary_ok");
				},
			Ok(Err(_)) =>
				if total <= top {
					rep.violation("append-rejected:()", format!("appending {add} unit items to {old} (combined {total}, representable) failed"), wit());
				} else {
					rep.count("boundary_overflow_rejected");
				},
		}
	}
	// width change with real bytes behind the prefix
	for edge in [64usize, 1 << 14] {
		for old in [edge - 2, edge - 1, edge] {
			for add in [1usize, 2, 3] {
				let items: Vec<u8> = (0..old).map(|i| i as u8).collect();
				let extra: Vec<u8> = (0..add).map(|i| (200 + i) as u8).collect();
				let mut all = items.clone();
				all.extend_from_slice(&extra);
				rep.evaluations += 1;
				rep.count("boundary_cases");
				match catch(|| <Vec<u8> as EncodeAppend>::append_or_new(items.encode(), &extra)) {
					Ok(Ok(got)) if got == all.encode() => rep.count("boundary_ok"),
					other => rep.violation("append-differs:u8-boundary", format!("appending {add} bytes to a Vec<u8> of {old}: {:?}", other.map(|r| r.map(|g| hex(&g[..g.len().min(12)])))), "{}".into()),
				}
			}
		}
	}
	// input that does not begin with a valid count
	let bad: Vec<(&str, Vec<u8>)> = vec![
		("truncated two-byte mode", vec![0x01]),
		("truncated four-byte mode", vec![0x02, 0x00, 0x01]),
		("non-canonical two-byte zero", vec![0x01, 0x00]),
		("non-canonical four-byte", vec![0x02, 0x01, 0x00, 0x00]),
		("big-integer mode below 2^30", vec![0x03, 0x05, 0x00, 0x00, 0x00]),
		("five-byte big-integer (over-wide)", vec![0x07, 0x00, 0x00, 0x00, 0x00, 0x01]),
		("truncated big-integer", vec![0x03, 0xff, 0xff]),
		("reserved long prefix", vec![0xff, 1, 2, 3, 4, 5, 6, 7, 8]),
		("five-byte big-integer with a plausible low word", vec![0x07, 0x05, 0x00, 0x00, 0x40, 0x01]),
		("six-byte big-integer with a plausible low word", vec![0x0b, 0xff, 0xff, 0xff, 0xff, 0x01, 0x00]),
		("eight-byte big-integer, all ones", vec![0x13, 0xff, 0xff, 0xff, 0xff, 0xff, 0xff, 0xff, 0xff]),
		("longest big-integer prefix", vec![0xff, 0xff, 0xff, 0xff, 0xff, 0xff, 0xff, 0xff, 0xff, 0xff]),
		("big-integer mode, zero", vec![0x03, 0x00, 0x00, 0x00, 0x00]),
		("two-byte mode, value below 64", vec![0xfd, 0x00]),
	];
	for (what, input) in bad {
		rep.evaluations += 1;
		rep.count("invalid_prefix_cases");
		match catch(|| <Vec<u8> as EncodeAppend>::append_or_new(input.clone(), &[1u8, 2][..])) {
			Ok(Err(_)) => rep.count("invalid_prefix_rejected"),
			Ok(Ok(got)) => rep.violation("append-accepts-invalid-prefix", format!("append_or_new accepted input {} ({what}) and returned {}", hex(&input), hex(&got)), jobj(&[("property", jstr("C15")), ("input", jstr(&hex(&input)))])),
			Err(p) => rep.violation("append-panic:invalid-prefix", format!("append_or_new panicked on {} ({what}): {p}", hex(&input)), "{}".into()),
		}
	}
	// a valid "empty sequence" encoding (count 0) is not the same as empty input, both must work
	for start in [Vec::new(), vec![0u8]] {
		rep.evaluations += 1;
		match catch(|| <Vec<u32> as EncodeAppend>::append_or_new(start.clone(), &[7u32, 8][..])) {
			Ok(Ok(got)) if got == vec![7u32, 8].encode() => {},
			other => rep.violation("append-differs:empty-start", format!("append to {:?}: {:?}", start, other.map(|r| r.map(|g| hex(&g)))), "{}".into()),
		}
	}
}

/// A real 2^30 boundary: one GiB of bytes behind the prefix (thorough only).
fn append_gib(rep: &mut Report) {
	let old = (1usize << 30) - 1;
	let mut enc = Vec::with_capacity(old + 16);
	compact_encode(old as u128, &mut enc);
	enc.resize(enc.len() + old, 0xAB);
	rep.evaluations += 1;
	rep.count("gib_cases");
	match catch(|| <Vec<u8> as EncodeAppend>::append_or_new(enc, &[1u8, 2, 3][..])) {
		Ok(Ok(got)) => {
			let mut head = Vec::new();
			compact_encode(old as u128 + 3, &mut head);
			let ok = got.len() == head.len() + old + 3 && got[..head.len()] == head[..] && got[head.len()] == 0xAB && got[got.len() - 4..] == [0xAB, 1, 2, 3];
			if !ok {
				rep.violation("append-differs:gib", format!("appending across the 2^30 boundary with 1 GiB payload: len {} head {}", got.len(), hex(&got[..8])), "{}".into());
			}
		},
		other => rep.violation("append-rejected:gib", format!("appending across the 2^30 boundary failed: {:?}", other.map(|r| r.map(|g| g.len()))), "{}".into()),
	}
}

pub fn c15(ctx: &Ctx) {
	let mut rep = Report::new("C15");
	if ctx.mode == "gib" {
		if ctx.shard == 0 {
			append_gib(&mut rep);
			rep.nontrivial(1);
			rep.nontrivial(2);
		}
		finish(ctx, &rep);
		return;
	}
	let rounds = ctx.budget(1500, 120_000);
	let mut job = 0usize;
	macro_rules! items {
		($($t:ty),*) => {$(
			if job % ctx.nshards == ctx.shard {
				let mut rng = ctx.rng_for(stringify!($t));
				append_histories::<$t>(stringify!($t), &mut rng, rounds, &mut rep);
				rep.count("item_types");
			}
			job += 1;
		)*}
	}
	items!(u8, u32, String, Vec<u8>, (), SNamed2, (u8, u16), Option<u64>, Compact<u32>, u128, bool, [u8; 3], EDisc, Vec<String>, i16, f64, Only, Marker, [Only; 2], BeU32);
	if job % ctx.nshards == ctx.shard {
		append_boundaries(&mut rep, ctx.tier == Tier::Thorough);
	}
	finish(ctx, &rep);
}

/// clonable derived item
#[derive(Encode, Decode, Clone, Debug, PartialEq)]
pub struct SNamed2 {
	a: u8,
	#[codec(compact)]
	b: u32,
	c: Vec<u16>,
}
impl Modelled for SNamed2 {
	fn ty() -> Ty {
		Ty::Struct {
			name: "SNamed2".into(),
			fields: vec![FieldTy::plain(Ty::u(1)), FieldTy::as_(Ty::u(4), Ty::Compact { bits: 32 }), FieldTy::plain(<Vec<u16>>::ty())],
		}
	}
	fn to_val(&self) -> Val {
		Val::Tuple(vec![self.a.to_val(), self.b.to_val(), self.c.to_val()])
	}
	fn from_val(v: &Val) -> Self {
		match v {
			Val::Tuple(f) => SNamed2 { a: u8::from_val(&f[0]), b: u32::from_val(&f[1]), c: Vec::from_val(&f[2]) },
			_ => panic!("SNamed2"),
		}
	}
}

// ------------------------------------------------------------------------------------------
// C16

/// `A: EncodeLike<B>` is the crate's declaration; the bound makes an undeclared pair a compile error.
fn like<A, B>(family: &'static str, a: &A, b: &B, rep: &mut Report)
where
	A: EncodeLike<B>,
	B: Encode,
{
	rep.evaluations += 1;
	rep.count(&format!("family:{family}"));
	let ea = a.encode();
	let eb = b.encode();
	if ea.len() >= 2 {
		rep.nontrivial(hash64(&(family, &ea)));
	}
	// every way of obtaining A's bytes counts
	let ua = a.using_encoded(|x| x.to_vec());
	let mut ta = Vec::new();
	a.encode_to(&mut ta);
	if ua != eb || ta != eb || a.encoded_size() != eb.len() {
		rep.violation(
			&format!("encode-like-entry-points:{family}"),
			format!("{family}: A through using_encoded gives {}, through encode_to {}, encoded_size {}; the B value encodes to {}", hex(&ua[..ua.len().min(48)]), hex(&ta[..ta.len().min(48)]), a.encoded_size(), hex(&eb[..eb.len().min(48)])),
			jobj(&[("property", jstr("C16")), ("family", jstr(family)), ("b", jstr(&hex(&eb)))]),
		);
	}
	if ea != eb {
		rep.violation(
			&format!("encode-like:{family}"),
			format!("{family}: A encodes to {} but the B value it stands for encodes to {}", hex(&ea[..ea.len().min(64)]), hex(&eb[..eb.len().min(64)])),
			jobj(&[("property", jstr("C16")), ("family", jstr(family)), ("a", jstr(&hex(&ea))), ("b", jstr(&hex(&eb)))]),
		);
	}
	if rep.want_sample() && ea.len() >= 2 {
		rep.sample(jobj(&[("family", jstr(family)), ("bytes", jstr(&hex(&ea[..ea.len().min(32)])))]));
	}
}

/// additionally: the bytes of `a` decode as `B` to `b`
fn like_dec<A, B>(family: &'static str, a: &A, b: &B, rep: &mut Report)
where
	A: EncodeLike<B>,
	B: Encode + Decode + Modelled,
{
	like(family, a, b, rep);
	let ea = a.encode();
	let mut s = &ea[..];
	match catch(|| B::decode(&mut s).ok().map(|x| x.to_val())) {
		Ok(Some(v)) if v == b.to_val() && s.is_empty() => {
			rep.count("decoded_as_b");
			// and through the shared-buffer entry point
			match catch(|| parity_scale_codec::decode_from_bytes::<B>(bytes::Bytes::from(ea.clone())).ok().map(|x| x.to_val())) {
				Ok(Some(v2)) if v2 == v => rep.count("decoded_as_b_from_shared_buffer"),
				other => rep.violation(
					&format!("encode-like-decode-shared:{family}"),
					format!("{family}: the bytes of A ({}) do not decode as B through decode_from_bytes: {:?}", hex(&ea[..ea.len().min(64)]), other.map(|o| o.map(|v| show_val(&v)))),
					jobj(&[("property", jstr("C16")), ("family", jstr(family)), ("a", jstr(&hex(&ea)))]),
				),
			}
		},
		other => rep.violation(
			&format!("encode-like-decode:{family}"),
			format!("{family}: the bytes of A ({}) do not decode as B to the corresponding value: {:?}, {} bytes left", hex(&ea[..ea.len().min(64)]), other.map(|o| o.map(|v| show_val(&v))), s.len()),
			jobj(&[("property", jstr("C16")), ("family", jstr(family)), ("a", jstr(&hex(&ea)))]),
		),
	}
}

pub fn c16(ctx: &Ctx) {
	let mut rep = Report::new("C16");
	let n = ctx.budget(1500, 600_000);
	let mut rng = ctx.rng_for("c16");
	for round in 0..n {
		if round as usize % ctx.nshards != ctx.shard {
			// every shard runs its own rounds (different seeds); keys include the bytes
		}
		let x: u32 = gen_of(&mut rng);
		let s: String = gen_of(&mut rng);
		let v8: Vec<u8> = gen_of(&mut rng);
		let v32: Vec<u32> = gen_of(&mut rng);
		let vs: Vec<String> = gen_of(&mut rng);
		let t: (u8, Vec<u16>) = gen_of(&mut rng);
		let mut xm = x;
		// references and smart pointers, both directions
		like_dec("&T ~ T", &&x, &x, &mut rep);
		like("T ~ &T", &x, &&x, &mut rep);
		like_dec("&&T ~ T", &&&x, &x, &mut rep);
		like("T ~ &&T", &x, &&&x, &mut rep);
		like("T ~ &mut T", &x, &&mut xm, &mut rep);
		like_dec("&mut T ~ T", &&mut xm, &x, &mut rep);
		like_dec("Box<T> ~ T", &Box::new(t.clone()), &t, &mut rep);
		like_dec("T ~ Box<T>", &t, &Box::new(t.clone()), &mut rep);
		like_dec("Rc<T> ~ T", &Rc::new(s.clone()), &s, &mut rep);
		like_dec("T ~ Rc<T>", &s, &Rc::new(s.clone()), &mut rep);
		like_dec("Arc<T> ~ T", &Arc::new(v32.clone()), &v32, &mut rep);
		like_dec("T ~ Arc<T>", &v32, &Arc::new(v32.clone()), &mut rep);
		like_dec("Cow<T> ~ T", &Cow::Borrowed(&t), &t, &mut rep);
		like_dec("Cow<T> ~ T", &Cow::<'_, (u8, Vec<u16>)>::Owned(t.clone()), &t, &mut rep);
		like("T ~ Cow<T>", &t, &Cow::Borrowed(&t), &mut rep);
		like_dec("Box<T> self", &Box::new(x), &Box::new(x), &mut rep);
		// strings and byte buffers
		like_dec("&str ~ String", &s.as_str(), &s, &mut rep);
		like("String ~ &str", &s, &s.as_str(), &mut rep);
		let by = bytes::Bytes::from(v8.clone());
		like("Bytes ~ &[u8]", &by, &&v8[..], &mut rep);
		like_dec("Bytes ~ Vec<u8>", &by, &v8, &mut rep);
		like_dec("&[u8] ~ Bytes", &&v8[..], &by, &mut rep);
		like_dec("Vec<u8> ~ Bytes", &v8, &by, &mut rep);
		like_dec("(Vec<u8>, u32) ~ (Bytes, u32)", &(v8.clone(), x), &(by.clone(), x), &mut rep);
		like_dec("(&[u8], Vec<u8>) ~ (Bytes, Bytes)", &(&v8[..], v8.clone()), &(by.clone(), by.clone()), &mut rep);
		like_dec("Vec<Vec<u8>> ~ Vec<Bytes>", &vec![v8.clone(), v8.clone()], &vec![by.clone(), by.clone()], &mut rep);
		// sequences
		let vrefs: Vec<&String> = vs.iter().collect();
		like_dec("Vec<T> ~ Vec<U>", &vrefs, &vs, &mut rep);
		like("Vec<T> ~ &[U]", &vs, &&vs[..], &mut rep);
		like_dec("&[T] ~ Vec<U>", &&vs[..], &vs, &mut rep);
		let dq: VecDeque<u32> = {
			let mut d: VecDeque<u32> = VecDeque::with_capacity(v32.len().max(2));
			if v32.len() > 1 {
				for _ in 0..d.capacity() - v32.len() / 2 {
					d.push_back(0);
				}
				while d.pop_front().is_some() {}
			}
			d.extend(v32.iter().copied());
			d
		};
		if !dq.as_slices().1.is_empty() {
			rep.count("wrapped_deques");
		}
		like_dec("VecDeque<T> ~ Vec<U>", &dq, &v32, &mut rep);
		like_dec("Vec<T> ~ VecDeque<U>", &v32, &dq, &mut rep);
		like("VecDeque<T> ~ &[U]", &dq, &&v32[..], &mut rep);
		like_dec("&[T] ~ VecDeque<U>", &&v32[..], &dq, &mut rep);
		like_dec("VecDeque self", &dq, &dq, &mut rep);
		// element-wise collections and their slice-of-tuples aliases (slices in collection order)
		let m: BTreeMap<u16, String> = gen_of(&mut rng);
		let mpairs: Vec<(u16, String)> = m.iter().map(|(k, v)| (*k, v.clone())).collect();
		let mref: BTreeMap<&u16, &String> = m.iter().collect();
		like_dec("BTreeMap ~ BTreeMap", &mref, &m, &mut rep);
		like("BTreeMap ~ &[(K,V)]", &m, &&mpairs[..], &mut rep);
		like_dec("&[(K,V)] ~ BTreeMap", &&mpairs[..], &m, &mut rep);
		let set: BTreeSet<u32> = gen_of(&mut rng);
		let sitems: Vec<(u32,)> = set.iter().map(|k| (*k,)).collect();
		like("BTreeSet ~ &[(T,)]", &set, &&sitems[..], &mut rep);
		like_dec("&[(T,)] ~ BTreeSet", &&sitems[..], &set, &mut rep);
		like_dec("BTreeSet ~ BTreeSet", &set.iter().collect::<BTreeSet<&u32>>(), &set, &mut rep);
		let ll: LinkedList<u16> = gen_of(&mut rng);
		let litems: Vec<(u16,)> = ll.iter().map(|k| (*k,)).collect();
		like("LinkedList ~ &[(T,)]", &ll, &&litems[..], &mut rep);
		like_dec("&[(T,)] ~ LinkedList", &&litems[..], &ll, &mut rep);
		like_dec("LinkedList ~ LinkedList", &ll.iter().collect::<LinkedList<&u16>>(), &ll, &mut rep);
		let heap: BinaryHeap<u32> = gen_of(&mut rng);
		let hitems: Vec<(u32,)> = heap.iter().map(|k| (*k,)).collect();
		like("BinaryHeap ~ &[(T,)] (iteration order)", &heap, &&hitems[..], &mut rep);
		{
			// heaps are multisets: the bytes of the slice must decode to the same multiset
			let e = (&hitems[..]).encode();
			match <BinaryHeap<u32>>::decode(&mut &e[..]) {
				Ok(h2) if h2.to_val() == heap.to_val() => rep.count("decoded_as_b"),
				_ => rep.violation("encode-like-decode:&[(T,)] ~ BinaryHeap", "slice of 1-tuples does not decode to the same heap".into(), "{}".into()),
			}
			rep.evaluations += 1;
		}
		// option / result / array / tuples
		let o: Option<String> = gen_of(&mut rng);
		like_dec("Option<T> ~ Option<U>", &o.as_ref(), &o, &mut rep);
		let r: Result<u32, String> = gen_of(&mut rng);
		like_dec("Result<T,E> ~ Result<U,F>", &r.as_ref(), &r, &mut rep);
		let arr: [String; 3] = gen_of(&mut rng);
		let arr_refs: [&String; 3] = [&arr[0], &arr[1], &arr[2]];
		like_dec("[T;N] ~ [U;N]", &arr_refs, &arr, &mut rep);
		let parr: [u32; 3] = gen_of(&mut rng);
		like_dec("&[u32;3] ~ [u32;3]", &&parr, &parr, &mut rep);
		like_dec("Box<[u32;3]> ~ [u32;3]", &Box::new(parr), &parr, &mut rep);
		let parr2: [i128; 2] = gen_of(&mut rng);
		like_dec("Rc<[i128;2]> ~ [i128;2]", &Rc::new(parr2), &parr2, &mut rep);
		like_dec("([f64;2],) ~ ([f64;2],)", &(&[1.5f64, -0.0],), &([1.5f64, -0.0],), &mut rep);
		like_dec("(A,) ~ (A',)", &(&x,), &(x,), &mut rep);
		like_dec("(A,B) ~ (A',B')", &(&x, &s), &(x, s.clone()), &mut rep);
		like_dec("(A,B,C) ~ ...", &(&x, Box::new(s.clone()), &v8), &(x, s.clone(), v8.clone()), &mut rep);
		let t18: universe::T18 = gen_of(&mut rng);
		let t18r = (&t18.0, &t18.1, &t18.2, &t18.3, &t18.4, &t18.5, &t18.6, &t18.7, &t18.8, &t18.9, &t18.10, &t18.11, &t18.12, &t18.13, &t18.14, &t18.15, &t18.16, &t18.17);
		like_dec("18-tuple ~ 18-tuple", &t18r, &t18, &mut rep);
		let t10: universe::T10 = gen_of(&mut rng);
		let t10r = (&t10.0, Box::new(t10.1), Rc::new(t10.2), &t10.3, &t10.4, &t10.5, &t10.6, &t10.7, &t10.8, Arc::new(t10.9));
		like_dec("10-tuple ~ 10-tuple", &t10r, &t10, &mut rep);
		// compact
		let c: Compact<u64> = gen_of(&mut rng);
		like_dec("Compact self", &c, &c, &mut rep);
		{
			rep.evaluations += 1;
			rep.count("family:CompactRef");
			if CompactRef(&c.0).encode() != c.encode() {
				rep.violation("encode-like:CompactRef", format!("CompactRef({}) encodes differently from Compact", c.0), "{}".into());
			}
		}
		// the generic reference wrapper
		let rf: Ref<'_, Vec<&String>, Vec<String>> = Ref::from(&vrefs);
		like_dec("Ref<T,U> ~ U", &rf, &vs, &mut rep);
		like_dec("&Ref<T,U> ~ U", &&rf, &vs, &mut rep);
		let boxed_t = Box::new(t.clone());
		let rf2: Ref<'_, Box<(u8, Vec<u16>)>, (u8, Vec<u16>)> = Ref::from(&boxed_t);
		like_dec("Ref<Box<T>,T> ~ T", &rf2, &t, &mut rep);
		// self-likes of marker-ish types
		let ob: parity_scale_codec::OptionBool = gen_of(&mut rng);
		like_dec("OptionBool self", &ob, &ob, &mut rep);
		let du: core::time::Duration = gen_of(&mut rng);
		like_dec("Duration self", &du, &du, &mut rep);
		like_dec("() self", &(), &(), &mut rep);
		let bv: BitVec<u16, Msb0> = gen_of(&mut rng);
		like_dec("BitVec self", &bv, &bv, &mut rep);
		let bb: BitBox<u8, Lsb0> = gen_of(&mut rng);
		like_dec("BitBox self", &bb, &bb, &mut rep);
		let ga: generic_array::GenericArray<u32, generic_array::typenum::U5> = gen_of(&mut rng);
		like_dec("GenericArray self", &ga, &ga, &mut rep);
		// derive-generated `EncodeLike for Self`
		let d1: SNamed = gen_of(&mut rng);
		like_dec("derived struct self", &d1, &d1, &mut rep);
		let d2: EFields = gen_of(&mut rng);
		like_dec("derived enum self", &d2, &d2, &mut rep);
		let d3: SGeneric<u16> = gen_of(&mut rng);
		like_dec("derived generic self", &d3, &d3, &mut rep);
		like_dec("&derived ~ derived", &&d1, &d1, &mut rep);
		// derived repr(transparent) newtypes behind the pointer aliases (in-place decoding paths)
		macro_rules! transparent_families {
			($($t:ty),*) => {$({
				let (a, b): ($t, $t) = gen_pair(&mut rng);
				like_dec(concat!(stringify!($t), " ~ Box<T>"), &a, &Box::new(b), &mut rep);
				let (a, b): ($t, $t) = gen_pair(&mut rng);
				like_dec(concat!(stringify!($t), " ~ Rc<T>"), &a, &Rc::new(b), &mut rep);
				let (a, b): ($t, $t) = gen_pair(&mut rng);
				like_dec(concat!(stringify!($t), " ~ Arc<T>"), &a, &Arc::new(b), &mut rep);
				let (a, b): ($t, $t) = gen_pair(&mut rng);
				like_dec(concat!("Box<", stringify!($t), "> ~ T"), &Box::new(a), &b, &mut rep);
				let (a, b): ([$t; 2], [$t; 2]) = gen_pair(&mut rng);
				let refs: [&$t; 2] = [&a[0], &a[1]];
				like_dec(concat!("[&", stringify!($t), "; 2] ~ [T; 2]"), &refs, &b, &mut rep);
			})*}
		}
		transparent_families!(TNewtype, TNewtypeZ, TCompact, TEncAs, TSkip, TCompactZ, TEncAsZ, TOnlyFirst, TOnlyLast, SSingle, SCompact);
		// pointees that occupy no memory but do have bytes on the wire (and some that have neither)
		transparent_families!(Only, Marker, TAllZ, [Only; 2], (Marker, Only), ());
		// nested composition of declarations
		let nested_a: Vec<(&u32, Box<String>)> = vec![(&x, Box::new(s.clone()))];
		let nested_b: Vec<(u32, String)> = vec![(x, s.clone())];
		like_dec("nested Vec<(&A, Box<B>)> ~ Vec<(A,B)>", &nested_a, &nested_b, &mut rep);
		let oo: Option<Vec<&u32>> = Some(vec![&x, &x]);
		like_dec("nested Option<Vec<&T>> ~ Option<Vec<T>>", &oo, &Some(vec![x, x]), &mut rep);
	}
	finish(ctx, &rep);
}

//! C04: compact integers are a canonical, minimal, width-compatible bijection.
//! Exhaustive for 8/16/32 bit (thorough), structured + random for 64/128 bit.

use crate::common::*;
use monitor::model::{compact_decode, compact_encode, hex};
use monitor::report::{catch, jobj, jstr, Report};
use monitor::rng::Rng;
use parity_scale_codec::{Compact, CompactLen, Decode, Encode};

/// An input that cannot tell how much is left (what a stream reader is): the compact decoders must
/// accept and reject exactly the same strings through it.
struct NoLen<'a>(&'a [u8]);
impl<'a> parity_scale_codec::Input for NoLen<'a> {
	#[inline]
	fn remaining_len(&mut self) -> Result<Option<usize>, parity_scale_codec::Error> {
		Ok(None)
	}
	#[inline]
	fn read(&mut self, into: &mut [u8]) -> Result<(), parity_scale_codec::Error> {
		if into.len() > self.0.len() {
			return Err("eof".into());
		}
		let (a, b) = self.0.split_at(into.len());
		into.copy_from_slice(a);
		self.0 = b;
		Ok(())
	}
}

fn viol(rep: &mut Report, sig: &str, msg: String, bits: u32, bytes: &[u8]) {
	rep.violation(
		sig,
		msg,
		jobj(&[("property", jstr("C04")), ("width", bits.to_string()), ("bytes", jstr(&hex(bytes)))]),
	);
}

macro_rules! width_fns {
	($enc:ident, $dec:ident, $t:ty, $bits:expr) => {
		/// encode side for one value
		#[inline]
		fn $enc(x: $t, deep: bool, rep: &mut Report, spec: &mut Vec<u8>) {
			spec.clear();
			compact_encode(x as u128, spec);
			let c = Compact(x);
			let e = c.encode();
			let l = <Compact<$t> as CompactLen<$t>>::compact_len(&x);
			if e != *spec {
				viol(rep, concat!("compact-encode:u", $bits), format!("Compact<u{}>({}) encodes as {} instead of {}", $bits, x, hex(&e), hex(spec)), $bits, spec);
			}
			if l != spec.len() {
				viol(rep, concat!("compact-len:u", $bits), format!("compact_len({}) = {} but the shortest form has {} bytes", x, l, spec.len()), $bits, spec);
			}
			if deep {
				let u = c.using_encoded(|b| b.to_vec());
				let mut t = vec![0xEEu8];
				c.encode_to(&mut t);
				if u != *spec || t[1..] != spec[..] || c.encoded_size() != spec.len() || c.size_hint() != spec.len() {
					viol(rep, concat!("compact-entry-points:u", $bits), format!("Compact<u{}>({}): using_encoded {} encode_to {} encoded_size {} size_hint {} vs {}", $bits, x, hex(&u), hex(&t[1..]), c.encoded_size(), c.size_hint(), hex(spec)), $bits, spec);
				}
			}
			// decoding the canonical form gives the value back and consumes exactly it
			let mut s = &e[..];
			match <Compact<$t>>::decode(&mut s) {
				Ok(Compact(y)) if y == x && s.is_empty() => {},
				other => viol(rep, concat!("compact-roundtrip:u", $bits), format!("decoding {} gave {:?} with {} bytes left (expected {})", hex(&e), other.map(|c| c.0), s.len(), x), $bits, &e),
			}
		}

		/// decode side for one byte string
		#[inline]
		fn $dec(b: &[u8], rep: &mut Report) {
			let model = compact_decode(b, $bits);
			let mut s = b;
			let real = <Compact<$t>>::decode(&mut s);
			let used = b.len() - s.len();
			// the same string through an input of unknown length
			let mut nl = NoLen(b);
			let streamed = <Compact<$t>>::decode(&mut nl);
			let same = match (&real, &streamed) {
				(Ok(Compact(a)), Ok(Compact(c))) => a == c && nl.0.len() == s.len(),
				(Err(_), Err(_)) => true,
				_ => false,
			};
			if !same {
				viol(rep, concat!("compact-decode-input-kind:u", $bits), format!("{} decodes to {:?} from a slice but to {:?} from an input of unknown length", hex(b), real.as_ref().map(|c| c.0).ok(), streamed.as_ref().map(|c| c.0).ok()), $bits, b);
			}
			match (model, real) {
				(Ok((v, n)), Ok(Compact(y))) => {
					if v != y as u128 || n != used {
						viol(rep, concat!("compact-decode-value:u", $bits), format!("{} decodes to {} ({} bytes) but the canonical reading is {} ({} bytes)", hex(b), y, used, v, n), $bits, b);
					}
				},
				(Ok((v, _)), Err(_)) => viol(rep, concat!("compact-decode-rejects-canonical:u", $bits), format!("{} is the canonical form of {} but was rejected", hex(b), v), $bits, b),
				(Err(why), Ok(Compact(y))) => viol(rep, concat!("compact-decode-accepts:u", $bits), format!("{} is not a canonical u{} compact ({:?}) but decoded to {}", hex(b), $bits, why, y), $bits, b),
				(Err(_), Err(_)) => {},
			}
		}
	};
}

width_fns!(enc8, dec8, u8, 8);
width_fns!(enc16, dec16, u16, 16);
width_fns!(enc32, dec32, u32, 32);
width_fns!(enc64, dec64, u64, 64);
width_fns!(enc128, dec128, u128, 128);

fn dec_all_widths(b: &[u8], rep: &mut Report) {
	dec8(b, rep);
	dec16(b, rep);
	dec32(b, rep);
	dec64(b, rep);
	dec128(b, rep);
	rep.evaluations += 5;
}

/// every width that can hold `x` must produce the same bytes (all are compared with one model)
fn enc_all_widths(x: u128, rep: &mut Report, spec: &mut Vec<u8>) {
	if x <= u8::MAX as u128 {
		enc8(x as u8, true, rep, spec);
		rep.evaluations += 1;
	}
	if x <= u16::MAX as u128 {
		enc16(x as u16, true, rep, spec);
		rep.evaluations += 1;
	}
	if x <= u32::MAX as u128 {
		enc32(x as u32, true, rep, spec);
		rep.evaluations += 1;
	}
	if x <= u64::MAX as u128 {
		enc64(x as u64, true, rep, spec);
		rep.evaluations += 1;
	}
	enc128(x, true, rep, spec);
	rep.evaluations += 1;
}

pub fn c04(ctx: &Ctx) {
	let mut rep = Report::new("C04");
	let r = catch(|| run(ctx, &mut rep));
	if let Err(p) = r {
		rep.violation("compact-panic", format!("a compact operation panicked: {p}"), "{}".into());
	}
	finish(ctx, &rep);
}

fn run(ctx: &Ctx, rep: &mut Report) {
	let thorough = ctx.tier == Tier::Thorough && !ctx.is_slow();
	let (sh, ns) = (ctx.shard as u64, ctx.nshards as u64);
	let mut spec = Vec::with_capacity(20);
	let mut rng = ctx.rng_for("c04");

	// ---- values: u8, u16 exhaustive always; u32 exhaustive in thorough, strided + boundaries in quick
	if !ctx.is_slow() {
		for x in 0..=u16::MAX as u32 {
			if x as u64 % ns != sh {
				continue;
			}
			enc_all_widths(x as u128, rep, &mut spec);
			rep.distinct_enumerated += 1;
			rep.count("values_u16_exhaustive");
		}
	}
	let stride: u64 = if thorough { 1 } else if ctx.is_slow() { 40_000_003 } else { 7 };
	{
		let lo = (1u64 << 32) * sh / ns;
		let hi = (1u64 << 32) * (sh + 1) / ns;
		let mut x = lo + if stride > 1 { rng.below(stride) } else { 0 };
		let mut n = 0u64;
		while x < hi {
			// every 64th value also through the callback / streaming / size-only entry points
			enc32(x as u32, n % 64 == 0, rep, &mut spec);
			n += 1;
			x += stride;
		}
		rep.evaluations += n;
		rep.distinct_enumerated += n;
		rep.add(if thorough { "values_u32_exhaustive" } else { "values_u32_strided" }, n);
	}
	// ---- class boundaries +-4096 for every width
	if sh == 0 % ns {
		let mut edges: Vec<u128> = vec![1 << 6, 1 << 14, 1 << 30, 1 << 8, 1 << 16];
		for k in 4..16 {
			edges.push(1u128 << (8 * k));
		}
		edges.push(u128::MAX);
		edges.push(u64::MAX as u128);
		edges.push(u32::MAX as u128);
		let span = if ctx.is_slow() { 3 } else { 4096u128 };
		for e in edges {
			let lo = e.saturating_sub(span);
			let hi = e.saturating_add(span);
			let mut x = lo;
			loop {
				enc_all_widths(x, rep, &mut spec);
				rep.distinct_enumerated += 1;
				rep.count("values_boundary");
				if x == hi {
					break;
				}
				x += 1;
			}
		}
	}
	// ---- values with at most two non-zero byte lanes (64/128 bit)
	if !ctx.is_slow() {
		let lane_vals: Vec<u128> = if thorough { (1..=255).collect() } else { vec![1, 2, 0x3f, 0x40, 0x7f, 0x80, 0xfc, 0xfe, 0xff] };
		let mut pair = 0u64;
		for i in 0..16u32 {
			for j in i..16u32 {
				pair += 1;
				if pair % ns != sh {
					continue;
				}
				for a in &lane_vals {
					for b in &lane_vals {
						let x = (a << (8 * i)) | (b << (8 * j));
						if x <= u64::MAX as u128 {
							enc64(x as u64, true, rep, &mut spec);
							rep.evaluations += 1;
						}
						enc128(x, true, rep, &mut spec);
						rep.evaluations += 1;
						rep.distinct_enumerated += 1;
						rep.count("values_two_lanes");
						if i == j {
							break;
						}
					}
				}
			}
		}
	}
	// ---- random values
	let nrand = ctx.budget(1_000_000, 60_000_000);
	for _ in 0..nrand {
		let bits = rng.range(1, 128) as u32;
		let x = rng.next_u128() >> (128 - bits);
		enc_all_widths(x, rep, &mut spec);
		rep.nontrivial(monitor::report::hash64(&x));
	}
	rep.add("values_random", nrand);

	// ---- byte strings: every (first byte x top byte x fill x cut length)
	let fills: &[u8] = &[0x00, 0xff, 0x01, 0x80, 0xa5];
	let mut buf = Vec::with_capacity(80);
	for b0 in 0..=255u32 {
		if b0 as u64 % ns != sh {
			continue;
		}
		let need = match b0 & 3 {
			0 => 0usize,
			1 => 1,
			2 => 3,
			_ => (b0 as usize >> 2) + 4,
		};
		let tops: Vec<u32> = if ctx.is_slow() { vec![0, 1, 0x3f, 0x40, 0xff] } else { (0..=255).collect() };
		for top in tops {
			for fill in fills {
				buf.clear();
				buf.push(b0 as u8);
				for _ in 0..need {
					buf.push(*fill);
				}
				if need > 0 {
					let n = buf.len();
					buf[n - 1] = top as u8;
				}
				buf.push(0x5a); // one trailing byte that must stay unread
				for cut in 0..=buf.len() {
					dec_all_widths(&buf[..cut], rep);
					rep.distinct_enumerated += 1;
					rep.count("strings_tag_top_len");
				}
				if need == 0 {
					break;
				}
			}
			if need == 0 {
				break;
			}
		}
	}
	// ---- byte strings: exhaustive spaces the 8/16/32-bit decoders can distinguish
	// all strings of length <= 2 (decides Compact<u8> completely, mode 0/1 of all widths)
	if !ctx.is_slow() {
		for b0 in 0..=255u8 {
			if b0 as u64 % ns != sh {
				continue;
			}
			for b1 in 0..=255u8 {
				dec_all_widths(&[b0, b1], rep);
				rep.distinct_enumerated += 1;
				rep.count("strings_len2_exhaustive");
			}
		}
	}
	// four-byte mode: 2^30 payloads (b0 = 4k+2); big-integer mode with 4 bytes: 2^32 payloads
	{
		let stride: u64 = if thorough { 1 } else if ctx.is_slow() { 30_000_001 } else { 7 };
		let lo = (1u64 << 30) * sh / ns;
		let hi = (1u64 << 30) * (sh + 1) / ns;
		let mut v = lo + if stride > 1 { rng.below(stride) } else { 0 };
		let mut n = 0u64;
		while v < hi {
			let w = ((v as u32) << 2) | 2;
			let b = w.to_le_bytes();
			dec16(&b, rep);
			dec32(&b, rep);
			n += 1;
			v += stride;
		}
		rep.evaluations += 2 * n;
		rep.distinct_enumerated += n;
		rep.add(if thorough { "strings_mode2_exhaustive" } else { "strings_mode2_strided" }, n);

		let stride: u64 = if thorough { 1 } else if ctx.is_slow() { 120_000_007 } else { 13 };
		let lo = (1u64 << 32) * sh / ns;
		let hi = (1u64 << 32) * (sh + 1) / ns;
		let mut v = lo + if stride > 1 { rng.below(stride) } else { 0 };
		let mut n = 0u64;
		let mut b = [3u8, 0, 0, 0, 0];
		while v < hi {
			b[1..].copy_from_slice(&(v as u32).to_le_bytes());
			dec32(&b, rep);
			n += 1;
			v += stride;
		}
		rep.evaluations += n;
		rep.distinct_enumerated += n;
		rep.add(if thorough { "strings_mode3_exhaustive" } else { "strings_mode3_strided" }, n);
	}
	// ---- random strings and canonical-with-suffix / truncated-canonical strings
	let nrand = ctx.budget(1_000_000, 50_000_000);
	for i in 0..nrand {
		buf.clear();
		match i % 3 {
			0 => {
				let n = rng.range(1, 20) as usize;
				buf.extend_from_slice(&rng.bytes(n));
				if rng.chance(1, 2) {
					buf[0] = (buf[0] & 0xfc) | 3;
					buf[0] &= 0x3f; // plausible big-integer lengths
				}
			},
			1 => {
				// canonical form + suffix: must be accepted (if it fits) with exactly the form consumed
				let bits = rng.range(1, 128) as u32;
				compact_encode(rng.next_u128() >> (128 - bits), &mut buf);
				let n = rng.range(0, 4) as usize;
				buf.extend_from_slice(&rng.bytes(n));
			},
			_ => {
				// strict prefix of a canonical form: must be rejected
				let bits = rng.range(7, 128) as u32;
				compact_encode(rng.next_u128() >> (128 - bits), &mut buf);
				let cut = rng.usize_below(buf.len());
				buf.truncate(cut);
			},
		}
		dec_all_widths(&buf, rep);
		rep.nontrivial(monitor::report::hash64(&buf));
		if rep.want_sample() {
			rep.sample(jobj(&[("bytes", jstr(&hex(&buf))), ("model_u64", jstr(&format!("{:?}", compact_decode(&buf, 64))))]));
		}
	}
	rep.add("strings_random", nrand);
}

#[allow(dead_code)]
fn _unused(_: &mut Rng) {}

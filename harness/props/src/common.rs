//! Shared plumbing of the property binaries: run context, case generation, comparison helpers.

use monitor::gen::Gen;
use monitor::model::*;
use monitor::ops::TypeOps;
use monitor::report::{hash64, jobj, jstr, Report};
use monitor::rng::Rng;

#[derive(Clone, Copy, PartialEq, Eq, Debug)]
pub enum Tier {
	Quick,
	Thorough,
}

pub struct Ctx {
	pub prop: String,
	pub tier: Tier,
	/// running under an interpreter / sanitizer with a small budget
	pub slow: u32,
	pub seed: u64,
	pub shard: usize,
	pub nshards: usize,
	pub out: String,
	pub universe: Vec<TypeOps>,
	pub only_type: Option<String>,
	pub replay: Option<String>,
	pub mode: String,
	/// explicit per-type budget (used by the interpreter / sanitizer stages)
	pub values: Option<u64>,
}

impl Ctx {
	pub fn rng_for(&self, salt: &str) -> Rng {
		Rng::new(self.seed ^ hash64(&(salt, self.shard as u64, &self.prop)))
	}

	/// types handled by this shard (disjoint across shards, so per-shard distinct counts add up)
	pub fn my_types(&self) -> Vec<&TypeOps> {
		self.universe
			.iter()
			.enumerate()
			.filter(|(i, o)| {
				i % self.nshards == self.shard &&
					self.only_type.as_ref().map_or(true, |n| n == o.name) &&
					// kilobyte-sized values are left to the native and ASan stages
					!(self.is_slow() && o.has_tag("huge"))
			})
			.map(|(_, o)| o)
			.collect()
	}

	/// `quick`, `thorough` budget; divided by `slow` when running under Miri / valgrind
	pub fn budget(&self, quick: u64, thorough: u64) -> u64 {
		if let Some(v) = self.values {
			return v.max(1);
		}
		let b = match self.tier {
			Tier::Quick => quick,
			Tier::Thorough => thorough,
		};
		(b / self.slow as u64).max(1)
	}

	pub fn is_slow(&self) -> bool {
		self.slow >= 20
	}
}

pub struct Case {
	/// value in the canonical form of the real type
	pub val: Val,
	/// its specification encoding
	pub bytes: Vec<u8>,
	pub marks: Vec<Mark>,
}

pub fn gen_case(ops: &TypeOps, rng: &mut Rng, small: bool) -> Case {
	let raw = {
		let mut g = if small { Gen::small(rng) } else { Gen::new(rng) };
		g.val(&ops.ty)
	};
	let val = (ops.canon)(&raw);
	let (bytes, marks) = spec_encode_marks(&ops.ty, &val);
	Case { val, bytes, marks }
}

pub use monitor::diff::{bytes_conform, key, replay_json, same_val, sample_json};

pub fn finish(ctx: &Ctx, rep: &Report) {
	rep.write(&ctx.out);
}

/// Names of the types of a family, for the evidence.
pub fn note_types(rep: &mut Report, ops: &TypeOps) {
	rep.count("types_exercised");
	let _ = ops;
}

//! Shared plumbing of the property binaries: run context, case generation, comparison helpers.

use monitor::gen::Gen;
use monitor::model::*;
use monitor::ops::TypeOps;
use monitor::report::{hash64, jobj, jstr, Report};
use monitor::rng::Rng;

#[derive(Clone, Copy, PartialEq, Eq, Debug)]
pub enum Tier {
	Quick,
	Thorough,
}

pub struct Ctx {
	pub prop: String,
	pub tier: Tier,
	/// running under an interpreter / sanitizer with a small budget
	pub slow: u32,
	pub seed: u64,
	pub shard: usize,
	pub nshards: usize,
	pub out: String,
	pub universe: Vec<TypeOps>,
	pub only_type: Option<String>,
	pub replay: Option<String>,
	pub mode: String,
	/// explicit per-type budget (used by the interpreter / sanitizer stages)
	pub values: Option<u64>,
}

impl Ctx {
	pub fn rng_for(&self, salt: &str) -> Rng {
		Rng::new(self.seed ^ hash64(&(salt, self.shard as u64, &self.prop)))
	}

	/// types handled by this shard (disjoint across shards, so per-shard distinct counts add up)
	pub fn my_types(&self) -> Vec<&TypeOps> {
		self.universe
			.iter()
			.enumerate()
			.filter(|(i, o)| {
				i % self.nshards == self.shard &&
					self.only_type.as_ref().map_or(true, |n| n == o.name) &&
					// kilobyte-sized values are left to the native and ASan stages
					!(self.is_slow() && o.has_tag("huge"))
			})
			.map(|(_, o)| o)
			.collect()
	}

	/// `quick`, `thorough` budget; divided by `slow` when running under Miri / valgrind
	pub fn budget(&self, quick: u64, thorough: u64) -> u64 {
		if let Some(v) = self.values {
			return v.max(1);
		}
		let b = match self.tier {
			Tier::Quick => quick,
			Tier::Thorough => thorough,
		};
		(b / self.slow as u64).max(1)
	}

	pub fn is_slow(&self) -> bool {
		self.slow >= 20
	}
}

pub struct Case {
	/// value in the canonical form of the real type
	pub val: Val,
	/// its specification encoding
	pub bytes: Vec<u8>,
	pub marks: Vec<Mark>,
}

pub fn gen_case(ops: &TypeOps, rng: &mut Rng, small: bool) -> Case {
	let raw = {
		let mut g = if small { Gen::small(rng) } else { Gen::new(rng) };
		g.val(&ops.ty)
	};
	let val = (ops.canon)(&raw);
	let (bytes, marks) = spec_encode_marks(&ops.ty, &val);
	Case { val, bytes, marks }
}

pub fn key(ops: &TypeOps, bytes: &[u8]) -> u64 {
	hash64(&(ops.name, bytes))
}

pub fn replay_json(prop: &str, ops: &TypeOps, bytes: &[u8], extra: &[(&str, String)]) -> String {
	let mut f = vec![("property", jstr(prop)), ("type", jstr(ops.name)), ("bytes", jstr(&hex(bytes)))];
	for (k, v) in extra {
		f.push((k, v.clone()));
	}
	jobj(&f)
}

pub fn sample_json(ops: &TypeOps, what: &str, bytes: &[u8], note: &str) -> String {
	jobj(&[("type", jstr(ops.name)), ("case", jstr(what)), ("bytes", jstr(&hex(&bytes[..bytes.len().min(48)]))), ("len", bytes.len().to_string()), ("note", jstr(note))])
}

/// Compare a decoded value (already converted to `Val` by the bridge) with the model's value,
/// both brought to the real type's canonical form.
pub fn same_val(ops: &TypeOps, model: &Val, real: &Val) -> bool {
	let m = (ops.canon)(model);
	m == *real || m == (ops.canon)(real)
}

/// For types containing heaps the byte order of elements is unspecified: compare as a multiset by
/// decoding the produced bytes with the model.
pub fn bytes_conform(ops: &TypeOps, val: &Val, spec: &[u8], real: &[u8]) -> Result<(), String> {
	if real == spec {
		return Ok(());
	}
	if ops.has_tag("heap") {
		if real.len() != spec.len() {
			return Err(format!("heap encoding has {} bytes, specification {}", real.len(), spec.len()));
		}
		return match spec_decode(&ops.ty, real) {
			Ok((v, used)) if used == real.len() && same_val(ops, &v, val) => Ok(()),
			Ok(_) => Err("heap encoding decodes to a different multiset".into()),
			Err(e) => Err(format!("heap encoding is not in the language: {:?}", e)),
		};
	}
	let i = real.iter().zip(spec).position(|(a, b)| a != b).unwrap_or(real.len().min(spec.len()));
	Err(format!(
		"bytes differ from the specification at offset {} (produced {} bytes, specified {}): produced ..{} specified ..{}",
		i,
		real.len(),
		spec.len(),
		hex(&real[i.saturating_sub(2)..real.len().min(i + 6)]),
		hex(&spec[i.saturating_sub(2)..spec.len().min(i + 6)])
	))
}

pub fn finish(ctx: &Ctx, rep: &Report) {
	rep.write(&ctx.out);
}

/// Names of the types of a family, for the evidence.
pub fn note_types(rep: &mut Report, ops: &TypeOps) {
	rep.count("types_exercised");
	let _ = ops;
}

//! C01 (wire format), C02 (round trip), C03 (decoder language + totality).

use crate::common::*;
pub use monitor::diff::{c03_bytes, class_name, model_differential};
use monitor::gen::{mutate, random_bytes};
use monitor::model::*;
use monitor::ops::TypeOps;
use monitor::report::{catch, jstr, Report};
use monitor::rng::Rng;
use monitor::spy::SpyInput;
use parity_scale_codec::{Compact, CompactRef, Encode, Ref};

// ------------------------------------------------------------------------------------------
// C01

fn c01_value(ops: &TypeOps, case: &Case, rep: &mut Report) {
	rep.evaluations += 1;
	let real = catch(|| (ops.enc_plain)(&case.val));
	match real {
		Err(p) => rep.violation(
			&format!("encode-panic:{}", ops.name),
			format!("{}: encode() panicked: {}", ops.name, p),
			replay_json("C01", ops, &case.bytes, &[("kind", jstr("encode-panic"))]),
		),
		Ok(real) => {
			if real.len() >= 2 {
				rep.nontrivial(key(ops, &case.bytes));
			}
			if let Err(e) = bytes_conform(ops, &case.val, &case.bytes, &real) {
				rep.violation(
					&format!("wire-format:{}", ops.name),
					format!("{}: {} for value {}", ops.name, e, show_val(&case.val)),
					replay_json("C01", ops, &case.bytes, &[("produced", jstr(&hex(&real)))]),
				);
			}
			if rep.want_sample() && real.len() >= 2 {
				rep.sample(sample_json(ops, "value", &real, &show_val(&case.val)));
			}
		},
	}
}

/// Borrowed / unsized / reference forms that only encode.
fn c01_borrowed(rng: &mut Rng, n: u64, small: bool, rep: &mut Report) {
	use bitvec::prelude::*;
	fn check(rep: &mut Report, what: &str, got: Vec<u8>, spec: &[u8]) {
		rep.evaluations += 1;
		rep.count("borrowed_forms");
		if got.len() >= 2 {
			rep.nontrivial(monitor::report::hash64(&(what, spec)));
		}
		if got != spec {
			rep.violation(
				&format!("wire-format-borrowed:{what}"),
				format!("{what}: produced {} specified {}", hex(&got), hex(spec)),
				monitor::report::jobj(&[("property", jstr("C01")), ("form", jstr(what)), ("bytes", jstr(&hex(spec)))]),
			);
		}
	}
	macro_rules! slices {
		($($t:ty),*) => {$({
			let ops = monitor::probe_ops!(Vec<$t>);
			for _ in 0..n {
				let c = gen_case(&ops, rng, small);
				let v = <Vec<$t> as monitor::bridge::Modelled>::from_val(&c.val);
				check(rep, concat!("[", stringify!($t), "]"), v[..].encode(), &c.bytes);
				check(rep, concat!("&[", stringify!($t), "]"), (&v[..]).encode(), &c.bytes);
				check(rep, concat!("&&Vec<", stringify!($t), ">"), (&&v).encode(), &c.bytes);
				check(rep, concat!("Box<[", stringify!($t), "]>"), v.clone().into_boxed_slice().encode(), &c.bytes);
				check(rep, concat!("Rc<[", stringify!($t), "]>"), std::rc::Rc::<[$t]>::from(v.clone()).encode(), &c.bytes);
				check(rep, concat!("Arc<[", stringify!($t), "]>"), std::sync::Arc::<[$t]>::from(v.clone()).encode(), &c.bytes);
				check(rep, concat!("Cow<[", stringify!($t), "]> borrowed"), std::borrow::Cow::Borrowed(&v[..]).encode(), &c.bytes);
				check(rep, concat!("&mut [", stringify!($t), "]"), (&mut v.clone()[..]).encode(), &c.bytes);
				let r: Ref<'_, Vec<$t>, Vec<$t>> = Ref::from(&v);
				check(rep, concat!("Ref<Vec<", stringify!($t), ">>"), r.encode(), &c.bytes);
			}
		})*}
	}
	slices!(u8, u16, u32, u64, u128, i8, i16, i32, i64, i128, f32, f64, bool, String, (u8, u16));
	{
		let ops = monitor::probe_ops!(String);
		for _ in 0..n {
			let c = gen_case(&ops, rng, small);
			let s = <String as monitor::bridge::Modelled>::from_val(&c.val);
			check(rep, "str", s.as_str().encode(), &c.bytes);
			check(rep, "&str", (&s.as_str()).encode(), &c.bytes);
			check(rep, "Box<str>", s.clone().into_boxed_str().encode(), &c.bytes);
			check(rep, "Rc<str>", std::rc::Rc::<str>::from(s.as_str()).encode(), &c.bytes);
			check(rep, "Arc<str>", std::sync::Arc::<str>::from(s.as_str()).encode(), &c.bytes);
			check(rep, "Cow<str> borrowed", std::borrow::Cow::Borrowed(s.as_str()).encode(), &c.bytes);
			check(rep, "&mut String", (&mut s.clone()).encode(), &c.bytes);
		}
	}
	macro_rules! compacts {
		($($t:ty),*) => {$({
			let ops = monitor::probe_ops!(Compact<$t>);
			for _ in 0..n {
				let c = gen_case(&ops, rng, small);
				let x = <Compact<$t> as monitor::bridge::Modelled>::from_val(&c.val).0;
				check(rep, concat!("CompactRef<", stringify!($t), ">"), CompactRef(&x).encode(), &c.bytes);
				check(rep, concat!("&Compact<", stringify!($t), ">"), (&Compact(x)).encode(), &c.bytes);
			}
		})*}
	}
	compacts!(u8, u16, u32, u64, u128);
	// bit slices at every head offset of the store word
	macro_rules! bitslices {
		($(($s:ty, $o:ty)),*) => {$({
			let ops = monitor::probe_ops!(BitVec<$s, $o>);
			let w = core::mem::size_of::<$s>() * 8;
			for i in 0..n.min(400) as usize {
				let c = gen_case(&ops, rng, true);
				let bits = match &c.val { Val::Bits(b) => b.clone(), _ => unreachable!() };
				let off = i % w;
				let mut owner: BitVec<$s, $o> = BitVec::new();
				for k in 0..off { owner.push(k % 3 == 0); }
				owner.extend(bits.iter().copied());
				for _ in 0..(i % 5) { owner.push(true); }
				let slice: &BitSlice<$s, $o> = &owner[off..off + bits.len()];
				rep.count("bitslice_offsets");
				check(rep, concat!("BitSlice<", stringify!($s), ",", stringify!($o), ">"), slice.encode(), &c.bytes);
			}
		})*}
	}
	bitslices!((u8, Lsb0), (u8, Msb0), (u16, Lsb0), (u16, Msb0), (u32, Lsb0), (u32, Msb0));
	// 64-bit store words exist on 64-bit targets only
	#[cfg(target_pointer_width = "64")]
	bitslices!((u64, Lsb0), (u64, Msb0));
}

/// Largest representable counts must encode without panicking (optimised builds only).
fn c01_limits(rep: &mut Report) {
	use bitvec::prelude::*;
	let r = catch(|| {
		let v: Vec<()> = vec![(); u32::MAX as usize];
		v.encode()
	});
	rep.evaluations += 1;
	rep.count("limit_cases");
	match r {
		Ok(b) if b == [0x03, 0xff, 0xff, 0xff, 0xff] => {},
		Ok(b) => rep.violation("wire-format:Vec<()>-max", format!("Vec<()> of 2^32-1 elements encoded as {}", hex(&b)), "{}".into()),
		Err(p) => rep.violation("encode-panic:Vec<()>-max", format!("Vec<()> of 2^32-1 elements: encode panicked: {p}"), "{}".into()),
	}
	for n in [(1usize << 30) - 1, 1 << 30, u32::MAX as usize - 1, u32::MAX as usize] {
		let r = catch(|| {
			let v: std::collections::VecDeque<()> = vec![(); n].into();
			let s: &[()] = &vec![(); n];
			(v.encode(), s.encode(), s.encoded_size(), v.encoded_size())
		});
		rep.evaluations += 1;
		rep.count("limit_cases");
		let mut want = Vec::new();
		compact_encode(n as u128, &mut want);
		match r {
			Ok((a, b, la, lb)) if a == want && b == want && la == want.len() && lb == want.len() => {},
			Ok((a, b, la, lb)) => rep.violation("wire-format:unit-sequences-large", format!("VecDeque<()> / [()] of {n} elements encoded as {} / {} (sizes {la}, {lb})", hex(&a), hex(&b)), "{}".into()),
			Err(p) => rep.violation("encode-panic:unit-sequences-large", format!("VecDeque<()> / [()] of {n} elements: encode panicked: {p}"), "{}".into()),
		}
	}
	let r = catch(|| {
		let bv: BitVec<u32, Lsb0> = BitVec::repeat(true, (1 << 29) - 1);
		let e = bv.encode();
		(e.len(), e[..5].to_vec(), e[e.len() - 8..].to_vec())
	});
	rep.evaluations += 1;
	rep.count("limit_cases");
	match r {
		Ok((len, head, tail)) => {
			let mut spec_head = Vec::new();
			compact_encode((1u128 << 29) - 1, &mut spec_head);
			let words = ((1usize << 29) - 1 + 31) / 32;
			let last = [0xffu8, 0xff, 0xff, 0xff, 0xff, 0xff, 0xff, 0x7f];
			if len != spec_head.len() + words * 4 || head[..spec_head.len()] != spec_head[..] || tail != last {
				rep.violation("wire-format:BitVec-max", format!("BitVec of 2^29-1 bits: len {len} head {} tail {}", hex(&head), hex(&tail)), "{}".into());
			}
		},
		Err(p) => rep.violation("encode-panic:BitVec-max", format!("BitVec of 2^29-1 bits: encode panicked: {p}"), "{}".into()),
	}
}

pub fn c01_value_pub(ops: &TypeOps, case: &Case, rep: &mut Report) {
	c01_value(ops, case, rep)
}

pub fn c01(ctx: &Ctx) {
	let mut rep = Report::new("C01");
	let n = ctx.budget(10_000, 300_000);
	for ops in ctx.my_types() {
		let mut rng = ctx.rng_for(ops.name);
		note_types(&mut rep, ops);
		for i in 0..n {
			let case = gen_case(ops, &mut rng, i % 4 == 0 || ctx.is_slow());
			rep.begin(|| format!("C01 {} {}", ops.name, hex(&case.bytes)));
			c01_value(ops, &case, &mut rep);
		}
	}
	if ctx.shard == ctx.nshards - 1 {
		let mut rng = ctx.rng_for("borrowed");
		c01_borrowed(&mut rng, ctx.budget(1500, 30_000), ctx.is_slow(), &mut rep);
	}
	if ctx.shard == 1 % ctx.nshards && !ctx.is_slow() {
		let t0 = std::time::Instant::now();
		c01_limits(&mut rep);
		rep.max("max:limit_cases_ms", t0.elapsed().as_millis() as u64);
	}
	finish(ctx, &rep);
}

// ------------------------------------------------------------------------------------------
// C02

fn suffix_for(rng: &mut Rng, bytes: &[u8], k: u64) -> Vec<u8> {
	match k % 5 {
		0 => Vec::new(),
		1 => vec![rng.byte()],
		2 => rng.bytes(7),
		3 => {
			// looks like a continuation of the value
			let mut s = bytes[bytes.len().saturating_sub(9)..].to_vec();
			s.extend_from_slice(&bytes[..bytes.len().min(9)]);
			s
		},
		_ => {
			let n = if rng.chance(1, 20) { 4096 } else { 40 };
			rng.bytes(n)
		},
	}
}

pub fn c02_value(ops: &TypeOps, case: &Case, suffix: &[u8], rep: &mut Report, prop: &str) {
	let d = ops.d();
	rep.evaluations += 1;
	// the bytes under test are the crate's own encoding of the value
	let enc = match catch(|| (ops.enc_plain)(&case.val)) {
		Ok(e) => e,
		Err(p) => {
			rep.violation(&format!("encode-panic:{}", ops.name), format!("{}: encode panicked: {p}", ops.name), replay_json(prop, ops, &case.bytes, &[]));
			return;
		},
	};
	if enc.len() >= 2 {
		rep.nontrivial(key(ops, &enc) ^ suffix.len() as u64);
	}
	let mut input = enc.clone();
	input.extend_from_slice(suffix);
	let fail = |rep: &mut Report, sig: &str, msg: String| {
		rep.violation(
			&format!("{sig}:{}", ops.name),
			format!("{}: {} (value {}, encoding {}, suffix {} bytes)", ops.name, msg, show_val(&case.val), hex(&enc[..enc.len().min(64)]), suffix.len()),
			replay_json(prop, ops, &input, &[("encoded_len", enc.len().to_string())]),
		)
	};
	// (a) native slice input
	match catch(|| (d.slice)(&input)) {
		Err(p) => fail(rep, "roundtrip-panic", format!("decode panicked: {p}")),
		Ok((None, _)) => fail(rep, "roundtrip-reject", "decoding its own encoding failed".into()),
		Ok((Some(v), used)) => {
			if !same_val(ops, &case.val, &v) {
				fail(rep, "roundtrip-value", format!("decoded a different value {}", show_val(&v)));
			} else if used != enc.len() {
				fail(rep, "roundtrip-consumed", format!("consumed {used} bytes of a {}-byte encoding", enc.len()));
			}
		},
	}
	// (b) spy input: delivered bytes and "suffix untouched"
	let mut spy = SpyInput::new(&input);
	match catch(|| (d.dynamic)(&mut spy)) {
		Err(p) => fail(rep, "roundtrip-panic", format!("decode (spy) panicked: {p}")),
		Ok(None) => fail(rep, "roundtrip-reject", "decoding its own encoding failed (spy input)".into()),
		Ok(Some(v)) => {
			rep.add("spy_reads", spy.reads_ok);
			rep.add("spy_bytes", spy.delivered);
			if !same_val(ops, &case.val, &v) {
				fail(rep, "roundtrip-value", format!("decoded a different value {} (spy input)", show_val(&v)));
			} else if spy.delivered != enc.len() as u64 || spy.pos != enc.len() {
				fail(rep, "roundtrip-consumed", format!("input delivered {} bytes (position {}) for a {}-byte encoding", spy.delivered, spy.pos, enc.len()));
			} else if spy.reads_failed > 0 {
				fail(rep, "roundtrip-overread", format!("{} failed read attempts past the encoding", spy.reads_failed));
			}
		},
	}
	// (c) shared byte buffer (decode_from_bytes, zero-copy for byte-buffer fields)
	match catch(|| (d.bytes)(input.clone())) {
		Err(p) => fail(rep, "roundtrip-panic", format!("decode_from_bytes panicked: {p}")),
		Ok(None) => fail(rep, "roundtrip-reject:shared-buffer", "decode_from_bytes rejected the value's own encoding".into()),
		Ok(Some((v, used))) => {
			rep.count("shared_buffer_roundtrips");
			if !same_val(ops, &case.val, &v) {
				fail(rep, "roundtrip-value:shared-buffer", format!("decode_from_bytes returned a different value {}", show_val(&v)));
			} else if used != enc.len() {
				fail(rep, "roundtrip-consumed:shared-buffer", format!("decode_from_bytes consumed {used} bytes of a {}-byte encoding", enc.len()));
			}
		},
	}
	// (d) a reader that hands the data out in short chunks, through IoReader
	{
		let mut r = parity_scale_codec::IoReader(monitor::spy::ShortReader::new(&input, enc.len() as u64 ^ 0x51, 1 + enc.len() % 7));
		match catch(|| (d.dynamic)(&mut r)) {
			Err(p) => fail(rep, "roundtrip-panic", format!("decode through IoReader panicked: {p}")),
			Ok(None) => fail(rep, "roundtrip-reject:io-reader", "decoding its own encoding through IoReader over a short-chunk reader failed".into()),
			Ok(Some(v)) => {
				rep.count("io_reader_roundtrips");
				if !same_val(ops, &case.val, &v) {
					fail(rep, "roundtrip-value:io-reader", format!("IoReader decode returned a different value {}", show_val(&v)));
				} else if r.0.pos != enc.len() {
					fail(rep, "roundtrip-consumed:io-reader", format!("IoReader decode consumed {} bytes of a {}-byte encoding", r.0.pos, enc.len()));
				}
			},
		}
	}
	if rep.want_sample() && enc.len() >= 2 {
		rep.sample(sample_json(ops, "roundtrip", &enc, &format!("suffix {} bytes", suffix.len())));
	}
}

pub fn c02(ctx: &Ctx) {
	let mut rep = Report::new("C02");
	let n = ctx.budget(6000, 150_000);
	for ops in ctx.my_types() {
		if ops.dec.is_none() {
			continue;
		}
		if ctx.is_slow() && !slow_subset(ops) {
			continue;
		}
		let mut rng = ctx.rng_for(ops.name);
		note_types(&mut rep, ops);
		for i in 0..n {
			let case = gen_case(ops, &mut rng, i % 4 == 0 || ctx.is_slow());
			let suffix = suffix_for(&mut rng, &case.bytes, i);
			rep.begin(|| format!("C02 {} {}", ops.name, hex(&case.bytes)));
			c02_value(ops, &case, &suffix, &mut rep, "C02");
		}
	}
	finish(ctx, &rep);
}

/// The types whose decoding goes through unsafe code; what the interpreter / sanitizer shards run.
pub fn slow_subset(ops: &TypeOps) -> bool {
	ops.has_tag("prim-seq") ||
		ops.has_tag("prim-arr") ||
		ops.has_tag("ptr") ||
		ops.has_tag("ptr-elem") ||
		ops.has_tag("bits") ||
		ops.has_tag("bytes") ||
		ops.has_tag("twin-seq") ||
		ops.name.contains("TNewtype") ||
		ops.name.contains("TCompact") ||
		ops.name.contains("TEncAs") ||
		ops.name.contains("TSkip") ||
		ops.name.contains("TCompactZ") ||
		ops.name.contains("TEncAsZ") ||
		ops.has_tag("zst-wire") ||
		ops.has_tag("custom-fixed") ||
		ops.name.starts_with('[') ||
		ops.name.contains("Compact<u")
}

// ------------------------------------------------------------------------------------------
// C03

/// Bit sequences at the 2^29 limit with all the data really present (64 MiB): the count alone
/// must decide.
fn c03_bit_limit(ctx: &Ctx, rep: &mut Report) {
	for name in ["BitVec<u8, Lsb0>", "BitVec<u64, Msb0>", "BitBox<u32, Lsb0>"] {
		let Some(ops) = ctx.universe.iter().find(|o| o.name == name) else { continue };
		for (count, expect_ok) in [((1u128 << 29) - 1, true), (1u128 << 29, false), ((1u128 << 29) + 64, false)] {
			let mut b = Vec::with_capacity((1 << 26) + 32);
			compact_encode(count, &mut b);
			let head = b.len();
			b.resize(head + (1 << 26) + 16, 0);
			rep.evaluations += 1;
			rep.count("bit_limit_cases");
			rep.nontrivial(key(ops, &b[..head]) ^ count as u64);
			match catch(|| {
				let mut s = &b[..];
				let r = (ops.d().keep)(&mut s);
				(r.is_some(), b.len() - s.len())
			}) {
				Ok((ok, used)) => {
					if ok != expect_ok {
						rep.violation(
							&format!("decode-accepts-invalid:too-many-bits:{}", ops.name),
							format!("{}: a bit sequence claiming {count} bits with 64 MiB of data present: decode {} (consumed {used}), but sequences longer than 2^29-1 bits must be rejected and shorter ones accepted", ops.name, if ok { "succeeded" } else { "failed" }),
							replay_json("C03", ops, &b[..head], &[("claimed_bits", count.to_string()), ("payload", jstr("64 MiB of zero bytes"))]),
						);
					}
				},
				Err(p) => rep.violation(&format!("decode-panic:{}", ops.name), format!("{}: decode of a {count}-bit sequence panicked: {p}", ops.name), replay_json("C03", ops, &b[..head], &[])),
			}
		}
	}
}

const EXHAUSTIVE_TYPES: &[&str] = &[
	"bool",
	"Option<bool>",
	"OptionBool",
	"Result<u8, bool>",
	"Result<bool, u8>",
	"Result<(), ()>",
	"Compact<u8>",
	"Compact<u16>",
	"Compact<u32>",
	"NonZeroU8",
	"NonZeroI8",
	"EDisc",
	"EBoth",
	"EFields",
	"(u8, u16)",
	"Vec<bool>",
	"Option<Option<()>>",
	"[bool; 2]",
	"String",
	"BTreeSet<u8>",
	"BTreeMap<u8, u8>",
	"Vec<u8>",
	"Vec<u16>",
	"Vec<OptionBool>",
	"Option<OptionBool>",
	"List",
	"Option<u8>",
	"BitVec<u8, Lsb0>",
	"BitVec<u16, Msb0>",
	"Vec<Option<u32>>",
	"LinkedList<u8>",
	"Box<Option<Box<u8>>>",
	"Bytes",
	"Vec<Compact<u32>>",
	"SSingle",
	"TCompact",
	"Option<EDisc>",
];

fn c03_exhaustive(ctx: &Ctx, rep: &mut Report) {
	let maxlen = if ctx.tier == Tier::Thorough && !ctx.is_slow() { 3 } else if ctx.is_slow() { 1 } else { 2 };
	let mut n_types = 0;
	for name in EXHAUSTIVE_TYPES {
		let Some(ops) = ctx.universe.iter().find(|o| o.name == *name) else { continue };
		if ctx.only_type.as_ref().map_or(false, |n| n != ops.name) {
			continue;
		}
		n_types += 1;
		let before = rep.evaluations;
		// shards split the space by first byte
		if ctx.shard == 0 {
			c03_bytes(ops, &[], "exhaustive", rep);
		}
		let mut buf = Vec::with_capacity(3);
		for b0 in 0..=255u8 {
			if b0 as usize % ctx.nshards != ctx.shard {
				continue;
			}
			buf.clear();
			buf.push(b0);
			c03_bytes(ops, &buf, "exhaustive", rep);
			if maxlen >= 2 {
				for b1 in 0..=255u8 {
					buf.truncate(1);
					buf.push(b1);
					c03_bytes(ops, &buf, "exhaustive", rep);
					if maxlen >= 3 {
						for b2 in 0..=255u8 {
							buf.truncate(2);
							buf.push(b2);
							c03_bytes(ops, &buf, "exhaustive", rep);
						}
					}
				}
			}
		}
		rep.add("exhaustive_strings", rep.evaluations - before);
	}
	rep.max("exhaustive_types", n_types);
	rep.max("exhaustive_max_len", maxlen);
}

pub fn c03(ctx: &Ctx) {
	let mut rep = Report::new("C03");
	let n_vals = ctx.budget(1500, 30_000);
	for ops in ctx.my_types() {
		if ops.dec.is_none() {
			continue;
		}
		if ctx.is_slow() && !slow_subset(ops) {
			continue;
		}
		let mut rng = ctx.rng_for(ops.name);
		note_types(&mut rep, ops);
		let max_rand = if ops.has_tag("recursive") { 600 } else { 2000 };
		let mut prev: Vec<u8> = Vec::new();
		for i in 0..n_vals {
			let case = gen_case(ops, &mut rng, i % 3 != 0 || ctx.is_slow());
			rep.begin(|| format!("C03 {} base {}", ops.name, hex(&case.bytes)));
			// (a) the valid encoding itself, with and without trailing bytes
			c03_bytes(ops, &case.bytes, "valid", &mut rep);
			// (b) mutations
			let nm = if case.bytes.len() > 2000 { 3 } else { 10 };
			for _ in 0..nm {
				let (m, kind) = mutate(&case.bytes, &case.marks, &prev, &mut rng);
				rep.begin(|| format!("C03 {} {} {}", ops.name, kind, hex(&m)));
				c03_bytes(ops, &m, kind, &mut rep);
			}
			// every truncation of short encodings
			if case.bytes.len() <= 24 {
				for cut in 0..case.bytes.len() {
					c03_bytes(ops, &case.bytes[..cut], "truncate-all", &mut rep);
				}
			}
			// every count prefix tampered
			for m in case.marks.iter().take(6) {
				let t = monitor::gen::tampered_count(m.count, &mut rng);
				let mut o = case.bytes[..m.pos].to_vec();
				o.extend_from_slice(&t);
				o.extend_from_slice(&case.bytes[m.pos + m.len..]);
				c03_bytes(ops, &o, "count-tamper", &mut rep);
			}
			// (c) near-valid: exactly one grammar-aware fault
			for _ in 0..3 {
				if let Some((f, what)) = spec_encode_faulty(&ops.ty, &case.val, &mut rng) {
					rep.begin(|| format!("C03 {} {} {}", ops.name, what, hex(&f)));
					c03_bytes(ops, &f, what, &mut rep);
				}
			}
			// (d) random strings
			for _ in 0..4 {
				let r = random_bytes(&mut rng, max_rand);
				rep.begin(|| format!("C03 {} random {}", ops.name, hex(&r)));
				c03_bytes(ops, &r, "random", &mut rep);
			}
			prev = case.bytes;
		}
	}
	// (e) exhaustive short strings (not repeated under the sanitizer stages)
	if ctx.mode != "sampled-only" {
		c03_exhaustive(ctx, &mut rep);
		if ctx.shard == 0 && !ctx.is_slow() {
			c03_bit_limit(ctx, &mut rep);
		}
	}
	finish(ctx, &rep);
}

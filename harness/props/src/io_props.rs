//! C07 (entry points / bulk paths), C08 (input independence), C14 (self-delimiting, consume-all),
//! C18 (length peeking / skipping), C19 (counting input).

use crate::common::*;
use monitor::bridge::{Modelled, Twin};
use monitor::gen::{mutate, random_bytes};
use monitor::model::*;
use monitor::ops::{enc_all_of, EncReport, TypeOps, ENC_PREFIX};
use monitor::report::{catch, hash64, jobj, jstr, Report};
use monitor::rng::Rng;
use monitor::spy::{with_stack, Dyn, Ev, Fault, Layer, ShortReader, SpyInput, SpyOutput};
use parity_scale_codec::{CountedInput, Decode, Encode, Error, Input, IoReader, Output};
use std::collections::VecDeque;

/// Strings to throw at a decoder: the valid encoding, mutations, truncations, random strings.
pub fn hostile_strings(ops: &TypeOps, case: &Case, prev: &[u8], rng: &mut Rng, n_mut: usize, n_rand: usize) -> Vec<(Vec<u8>, &'static str)> {
	let mut v = vec![(case.bytes.clone(), "valid")];
	for _ in 0..n_mut {
		let (m, k) = mutate(&case.bytes, &case.marks, prev, rng);
		v.push((m, k));
	}
	if !case.bytes.is_empty() {
		let cut = rng.usize_below(case.bytes.len());
		v.push((case.bytes[..cut].to_vec(), "truncate"));
	}
	let max = if ops.has_tag("recursive") { 300 } else { 600 };
	for _ in 0..n_rand {
		v.push((random_bytes(rng, max), "random"));
	}
	// keep only strings the model can judge within its budget (see C03)
	v.retain(|(b, _)| !matches!(spec_decode(&ops.ty, b), Err(Reject::Budget)));
	v
}

// ------------------------------------------------------------------------------------------
// C07

fn check_entry_points(what: &str, r: &EncReport, rep: &mut Report, witness: impl Fn() -> String) {
	rep.evaluations += 1;
	let e = &r.encode;
	let mut bad: Vec<String> = Vec::new();
	if r.to_vec.len() < ENC_PREFIX.len() || &r.to_vec[..ENC_PREFIX.len()] != ENC_PREFIX {
		bad.push("encode_to(&mut Vec) disturbed the bytes already in the vector".into());
	} else if r.to_vec[ENC_PREFIX.len()..] != e[..] {
		bad.push(format!("encode_to(&mut Vec) wrote {} but encode() returned {}", hex(&r.to_vec[ENC_PREFIX.len()..]), hex(e)));
	}
	if r.to_dyn.data != *e {
		bad.push(format!("encode_to(&mut dyn Output) wrote {} but encode() returned {}", hex(&r.to_dyn.data), hex(e)));
	}
	if r.to_io != *e {
		bad.push(format!("encode_to(io::Write sink with short writes) received {} but encode() returned {}", hex(&r.to_io), hex(e)));
	}
	if r.using != *e {
		bad.push(format!("using_encoded saw {} but encode() returned {}", hex(&r.using), hex(e)));
	}
	if r.size != e.len() {
		bad.push(format!("encoded_size() = {} but encode() returned {} bytes", r.size, e.len()));
	}
	rep.add("output_write_calls", r.to_dyn.writes);
	rep.add("output_push_calls", r.to_dyn.pushes);
	rep.add("io_write_calls", r.io_calls);
	for b in bad {
		rep.violation(&format!("entry-points:{what}"), format!("{what}: {b}"), witness());
	}
}

/// One primitive element type: bulk containers vs the element-wise twin.
fn bulk_vs_twin<P>(pname: &'static str, rng: &mut Rng, ctx: &Ctx, rep: &mut Report)
where
	P: Modelled + Encode + Decode + Clone + 'static,
{
	let size = core::mem::size_of::<P>();
	let per = 16384 / size;
	let mut lens: Vec<usize> = (0..=40).collect();
	if ctx.is_slow() {
		lens = vec![0, 1, 2, 3, 7, 33];
		// crossing the 16 KiB window is expensive under an interpreter for narrow elements
		if size >= 4 || ctx.tier == Tier::Thorough {
			lens.extend_from_slice(&[per / 8, per + 1]);
		} else {
			lens.push(200);
		}
	} else {
		for k in 1..=3 {
			for d in [-1isize, 0, 1] {
				lens.push(((k * per) as isize + d) as usize);
			}
		}
		lens.extend_from_slice(&[63, 64, 65, 16383 / size.max(1), per / 2 + 1]);
	}
	let vops = monitor::probe_ops!(Vec<P>);
	let mut bulk_writes_seen = 0u64;
	let mut elem_writes_seen = 0u64;
	let mut bulk_reads_seen = 0u64;
	let mut elem_reads_seen = 0u64;
	let mut wrapped_seen = 0u64;
	for &n in &lens {
		// values
		let vals: Vec<P> = (0..n)
			.map(|_| {
				let mut g = monitor::gen::Gen::small(rng);
				P::from_val(&g.val(&P::ty()))
			})
			.collect();
		let twins: Vec<Twin<P>> = vals.iter().cloned().map(Twin).collect();
		let spec = spec_encode(&vops.ty, &vals.to_val());
		let wit = || jobj(&[("property", jstr("C07")), ("elem", jstr(pname)), ("len", n.to_string()), ("bytes", jstr(&hex(&spec[..spec.len().min(64)])))]);
		if spec.len() >= 2 {
			rep.nontrivial(hash64(&(pname, &spec)));
		}

		// --- encode: slice, Vec, VecDeque (wrapped), vs twins
		let mut forms: Vec<(&'static str, EncReport, bool)> = Vec::new();
		forms.push(("Vec<P>", enc_all_of(&vals, n as u64), true));
		forms.push(("[P]", enc_all_of(&vals[..], n as u64), true));
		forms.push(("Vec<Twin<P>>", enc_all_of(&twins, n as u64), false));
		let mut dq: VecDeque<P> = VecDeque::with_capacity(n.max(4));
		if n > 1 {
			// advance the ring-buffer head so that the contents wrap around
			let shift = dq.capacity() - n / 2;
			for _ in 0..shift {
				dq.push_back(vals[0].clone());
			}
			for _ in 0..shift {
				dq.pop_front();
			}
		}
		dq.extend(vals.iter().cloned());
		if !dq.as_slices().1.is_empty() {
			wrapped_seen += 1;
		}
		forms.push(("VecDeque<P>", enc_all_of(&dq, n as u64), true));
		let tdq: VecDeque<Twin<P>> = dq.iter().cloned().map(Twin).collect();
		forms.push(("VecDeque<Twin<P>>", enc_all_of(&tdq, n as u64), false));
		for (form, r, bulk) in &forms {
			check_entry_points(&format!("{form} of {pname}"), r, rep, &wit);
			if r.encode != spec {
				rep.violation(
					&format!("bulk-vs-elementwise:{form}:{pname}"),
					format!("{form} with P = {pname}, {n} elements: bytes differ from the element-wise encoding ({} vs {} bytes)", r.encode.len(), spec.len()),
					wit(),
				);
			}
			// which path ran? (chunk trace of the dyn Output spy)
			if n >= 8 {
				let calls = r.to_dyn.writes + r.to_dyn.pushes;
				if *bulk && calls <= 6 && r.to_dyn.max_write >= (n / 2) * size {
					bulk_writes_seen += 1;
				}
				if !*bulk && calls >= n as u64 {
					elem_writes_seen += 1;
				}
			}
		}

		// --- decode: valid, truncated and mutated strings, bulk vs twin, through a spy
		let mut strings: Vec<Vec<u8>> = vec![spec.clone()];
		if !spec.is_empty() {
			strings.push(spec[..spec.len() - 1].to_vec());
			strings.push(spec[..rng.usize_below(spec.len())].to_vec());
			let mut m = spec.clone();
			let i = rng.usize_below(m.len().min(3));
			m[i] ^= 1 << rng.below(8);
			strings.push(m);
			let mut e = spec.clone();
			e.extend_from_slice(&rng.bytes(size + 1));
			strings.push(e);
		}
		for s in &strings {
			rep.evaluations += 1;
			let mut a = SpyInput::new(s).traced();
			let ra = catch(|| <Vec<P>>::decode(&mut Dyn(&mut a)).ok().map(|v| v.to_val()));
			let mut b = SpyInput::new(s).traced();
			let rb = catch(|| <Vec<Twin<P>>>::decode(&mut Dyn(&mut b)).ok().map(|v| v.to_val()));
			let mut c = SpyInput::unknown_len(s);
			let rc = catch(|| <VecDeque<P>>::decode(&mut Dyn(&mut c)).ok().map(|v| v.to_val()));
			match (&ra, &rb, &rc) {
				(Ok(x), Ok(y), Ok(z)) => {
					let same_outcome = x.is_some() == y.is_some() && x.is_some() == z.is_some();
					let same_value = x == y && x == z;
					let same_pos = x.is_none() || (a.pos == b.pos && a.pos == c.pos);
					if !(same_outcome && same_value && same_pos) {
						rep.violation(
							&format!("bulk-vs-elementwise-decode:{pname}"),
							format!(
								"Vec<{pname}> / Vec<Twin> / VecDeque (unknown length) disagree on {} ({} bytes): accept {:?}/{:?}/{:?}, positions {}/{}/{}",
								hex(&s[..s.len().min(40)]),
								s.len(),
								x.is_some(),
								y.is_some(),
								z.is_some(),
								a.pos,
								b.pos,
								c.pos
							),
							jobj(&[("property", jstr("C07")), ("elem", jstr(pname)), ("bytes", jstr(&hex(s)))]),
						);
					}
					if n >= 8 && x.is_some() {
						let big_reads = a.trace.as_ref().unwrap().iter().filter(|e| matches!(e, Ev::Read(k) if *k >= size * 2)).count();
						if size == 1 || cfg!(target_endian = "little") {
							if big_reads >= 1 && a.reads_ok <= 8 + (n * size / 16384) as u64 {
								bulk_reads_seen += 1;
							}
						}
						if b.reads_ok >= n as u64 {
							elem_reads_seen += 1;
						}
					}
				},
				_ => rep.violation(&format!("decode-panic:Vec<{pname}>"), format!("bulk/twin decode panicked on {}", hex(&s[..s.len().min(40)])), wit()),
			}
		}
	}
	// arrays
	fn arr<P: Modelled + Encode + Decode + Clone + 'static, const N: usize>(pname: &str, rng: &mut Rng, rep: &mut Report) {
		let aops = monitor::probe_ops!([P; N]);
		let c = gen_case(&aops, rng, true);
		let a = <[P; N]>::from_val(&c.val);
		let t: [Twin<P>; N] = core::array::from_fn(|i| Twin(a[i].clone()));
		let ra = enc_all_of(&a, N as u64);
		let rt = enc_all_of(&t, N as u64);
		let wit = || jobj(&[("property", jstr("C07")), ("elem", jstr(pname)), ("array_len", N.to_string()), ("bytes", jstr(&hex(&c.bytes)))]);
		check_entry_points(&format!("[{pname}; {N}]"), &ra, rep, &wit);
		check_entry_points(&format!("[Twin<{pname}>; {N}]"), &rt, rep, &wit);
		if ra.encode != rt.encode || ra.encode != c.bytes {
			rep.violation(&format!("bulk-vs-elementwise:array:{pname}"), format!("[{pname}; {N}] bulk {} element-wise {} specification {}", hex(&ra.encode), hex(&rt.encode), hex(&c.bytes)), wit());
		}
		let mut strings = vec![c.bytes.clone()];
		if !c.bytes.is_empty() {
			strings.push(c.bytes[..c.bytes.len() - 1].to_vec());
			let mut e = c.bytes.clone();
			e.push(7);
			strings.push(e);
		}
		for s in strings {
			rep.evaluations += 1;
			let mut x = SpyInput::new(&s);
			let rx = catch(|| <[P; N]>::decode(&mut Dyn(&mut x)).ok().map(|v| v.to_val()));
			let mut y = SpyInput::new(&s);
			let ry = catch(|| <[Twin<P>; N]>::decode(&mut Dyn(&mut y)).ok().map(|v| v.to_val()));
			match (rx, ry) {
				(Ok(vx), Ok(vy)) =>
					if vx != vy || (vx.is_some() && x.pos != y.pos) {
						rep.violation(&format!("bulk-vs-elementwise-decode:array:{pname}"), format!("[{pname}; {N}] and its element-wise twin disagree on {}", hex(&s)), wit());
					},
				_ => rep.violation(&format!("decode-panic:[{pname}; {N}]"), format!("array decode panicked on {}", hex(&s)), wit()),
			}
			if N >= 2 {
				rep.count("array_cases");
			}
		}
	}
	for _ in 0..if ctx.is_slow() { 1 } else { 8 } {
		arr::<P, 0>(pname, rng, rep);
		arr::<P, 1>(pname, rng, rep);
		arr::<P, 32>(pname, rng, rep);
		arr::<P, 33>(pname, rng, rep);
	}
	rep.add(&format!("bulk_writes_seen:{pname}"), bulk_writes_seen);
	rep.add(&format!("elementwise_writes_seen:{pname}"), elem_writes_seen);
	rep.add(&format!("bulk_reads_seen:{pname}"), bulk_reads_seen);
	rep.add(&format!("elementwise_reads_seen:{pname}"), elem_reads_seen);
	rep.add(&format!("wrapped_deques_seen:{pname}"), wrapped_seen);
	rep.add("prims_with_bulk_write_and_read_observed", (bulk_writes_seen > 0 && bulk_reads_seen > 0 && elem_writes_seen > 0 && elem_reads_seen > 0 && wrapped_seen > 0) as u64);
}

pub fn c07(ctx: &Ctx) {
	let mut rep = Report::new("C07");
	// (1) entry points over the universe
	let n = ctx.budget(2500, 60_000);
	for ops in ctx.my_types() {
		if ctx.mode == "bulk-only" || (ctx.is_slow() && !crate::core_props::slow_subset(ops)) {
			continue;
		}
		let mut rng = ctx.rng_for(ops.name);
		note_types(&mut rep, ops);
		for i in 0..n {
			let case = gen_case(ops, &mut rng, i % 4 == 0 || ctx.is_slow());
			rep.begin(|| format!("C07 {} {}", ops.name, hex(&case.bytes)));
			match catch(|| (ops.enc)(&case.val, i)) {
				Ok(r) => {
					if r.encode.len() >= 2 {
						rep.nontrivial(key(ops, &case.bytes));
					}
					check_entry_points(ops.name, &r, &mut rep, || replay_json("C07", ops, &case.bytes, &[]));
					// the container's bytes against the element-by-element encoding (the reference
					// encoder works one element at a time), and decoding against the element-by-element
					// reference decoder: whatever fast path the crate takes must be indistinguishable
					if let Err(e) = bytes_conform(ops, &case.val, &case.bytes, &r.encode) {
						rep.violation(&format!("bulk-vs-elementwise:{}", ops.name), format!("{}: {e} (element-by-element encoding of {})", ops.name, show_val(&case.val)), replay_json("C07", ops, &case.bytes, &[]));
					}
					if ops.dec.is_some() && i % 2 == 0 {
						crate::core_props::model_differential(ops, &r.encode, "valid", &mut rep, "C07");
						let (m, kind) = mutate(&case.bytes, &case.marks, &case.bytes, &mut rng);
						crate::core_props::model_differential(ops, &m, kind, &mut rep, "C07");
						rep.count("elementwise_decode_differentials");
					}
					if rep.want_sample() && r.encode.len() >= 2 {
						rep.sample(sample_json(ops, "entry-points", &r.encode, &format!("{} Output::write calls, {} push_byte calls, {} io::Write calls", r.to_dyn.writes, r.to_dyn.pushes, r.io_calls)));
					}
				},
				Err(p) => rep.violation(&format!("encode-panic:{}", ops.name), format!("{}: an encoding entry point panicked: {p}", ops.name), replay_json("C07", ops, &case.bytes, &[])),
			}
		}
	}
	// (2) bulk vs element-wise twin, twelve primitives spread over the shards
	macro_rules! prims {
		($($i:expr => $t:ty),*) => {$(
			if $i % ctx.nshards == ctx.shard {
				let mut rng = ctx.rng_for(stringify!($t));
				bulk_vs_twin::<$t>(stringify!($t), &mut rng, ctx, &mut rep);
			}
		)*}
	}
	prims!(0 => u8, 1 => i8, 2 => u16, 3 => i16, 4 => u32, 5 => i32, 6 => u64, 7 => i64, 8 => u128, 9 => i128, 10 => f32, 11 => f64);
	finish(ctx, &rep);
}

// ------------------------------------------------------------------------------------------
// C08

const LAYER_KINDS: [Layer; 3] = [Layer::Counted, Layer::Depth(u32::MAX), Layer::Mem(usize::MAX)];

fn all_words() -> Vec<Vec<Layer>> {
	let mut w: Vec<Vec<Layer>> = vec![vec![]];
	for a in LAYER_KINDS {
		w.push(vec![a]);
		for b in LAYER_KINDS {
			w.push(vec![a, b]);
			for c in LAYER_KINDS {
				w.push(vec![a, b, c]);
			}
		}
	}
	w
}

fn word_name(w: &[Layer]) -> String {
	if w.is_empty() {
		return "-".into();
	}
	w.iter()
		.map(|l| match l {
			Layer::Counted => "C",
			Layer::Depth(_) => "D",
			Layer::Mem(_) => "M",
		})
		.collect()
}

/// Decode `b` as `ops` from base input number `base` under wrapper word `word`.
/// Returns (value, bytes consumed).
fn decode_via(ops: &TypeOps, b: &[u8], base: usize, word: &[Layer], seed: u64) -> (Option<Val>, usize) {
	let d = ops.d();
	let mut out: Option<Val> = None;
	let mut f = |i: &mut dyn Input| -> Result<(), Error> {
		out = (d.dynamic)(i);
		Ok(())
	};
	let used;
	match base {
		0 => {
			let mut s = SpyInput::new(b);
			let _ = with_stack(&mut s, word, &mut f);
			used = s.pos;
		},
		1 => {
			let mut s = SpyInput::unknown_len(b);
			let _ = with_stack(&mut s, word, &mut f);
			used = s.pos;
		},
		2 => {
			let mut r = IoReader(std::io::Cursor::new(b));
			let _ = with_stack(&mut r, word, &mut f);
			used = r.0.position() as usize;
		},
		3 => {
			let mut r = IoReader(ShortReader::new(b, seed, 1 + (seed % 9) as usize));
			let _ = with_stack(&mut r, word, &mut f);
			used = r.0.pos;
		},
		_ => {
			let mut s: &[u8] = b;
			let _ = with_stack(&mut s, word, &mut f);
			used = b.len() - s.len();
		},
	}
	(out, used)
}

const BASE_NAMES: [&str; 5] = ["spy-known-len", "unknown-len", "IoReader<Cursor>", "IoReader<short reads>", "&[u8]"];

pub fn c08(ctx: &Ctx) {
	let mut rep = Report::new("C08");
	let words = all_words();
	let n = ctx.budget(400, 8000);
	let mut combos = std::collections::HashSet::new();
	for ops in ctx.my_types() {
		if ops.dec.is_none() {
			continue;
		}
		if ctx.is_slow() && !crate::core_props::slow_subset(ops) {
			continue;
		}
		let d = ops.d();
		let mut rng = ctx.rng_for(ops.name);
		note_types(&mut rep, ops);
		let mut prev = Vec::new();
		for i in 0..n {
			let case = gen_case(ops, &mut rng, i % 4 != 0 || ctx.is_slow());
			for (b, origin) in hostile_strings(ops, &case, &prev, &mut rng, 4, 2) {
				rep.begin(|| format!("C08 {} {} {}", ops.name, origin, hex(&b)));
				// reference: the plain in-memory slice
				let base_run = catch(|| (d.slice)(&b));
				let (rv, rused) = match base_run {
					Ok(x) => x,
					Err(p) => {
						rep.violation(&format!("decode-panic:{}", ops.name), format!("{}: slice decode panicked: {p}", ops.name), replay_json("C08", ops, &b, &[]));
						continue;
					},
				};
				if !b.is_empty() {
					rep.nontrivial(key(ops, &b));
				}
				rep.count(if rv.is_some() { "accepted" } else { "rejected" });
				// stacks: each base with the empty word + three random words; plus the shared buffer
				let mut runs: Vec<(usize, &Vec<Layer>)> = Vec::new();
				for base in 0..5 {
					runs.push((base, &words[0]));
					for _ in 0..if ctx.is_slow() { 1 } else { 3 } {
						runs.push((base, &words[1 + rng.usize_below(words.len() - 1)]));
					}
				}
				for (base, word) in runs {
					rep.evaluations += 1;
					combos.insert((base, word_name(word)));
					let r = catch(|| decode_via(ops, &b, base, word, i ^ b.len() as u64));
					let desc = format!("{} + [{}]", BASE_NAMES[base], word_name(word));
					match r {
						Err(p) => rep.violation(&format!("decode-panic:{}", ops.name), format!("{}: decode through {desc} panicked: {p}", ops.name), replay_json("C08", ops, &b, &[("stack", jstr(&desc))])),
						Ok((v, used)) =>
							if v.is_some() != rv.is_some() || v != rv || (v.is_some() && used != rused) {
								rep.violation(
									&format!("input-dependence:{}:{}", BASE_NAMES[base], ops.name),
									format!(
										"{}: {} ({}) decodes differently through {desc}: slice -> {} consuming {}, stack -> {} consuming {}",
										ops.name,
										hex(&b[..b.len().min(48)]),
										origin,
										rv.as_ref().map(show_val).unwrap_or("Err".into()),
										rused,
										v.as_ref().map(show_val).unwrap_or("Err".into()),
										used
									),
									replay_json("C08", ops, &b, &[("stack", jstr(&desc))]),
								);
							},
					}
				}
				// shared byte buffer (BytesCursor) with its zero-copy path
				rep.evaluations += 1;
				combos.insert((5, "-".into()));
				match catch(|| (d.bytes)(b.clone())) {
					Err(p) => rep.violation(&format!("decode-panic:decode_from_bytes:{}", ops.name), format!("{}: decode_from_bytes panicked: {p} on {}", ops.name, hex(&b[..b.len().min(48)])), replay_json("C08", ops, &b, &[("stack", jstr("decode_from_bytes"))])),
					Ok(r) => {
						let (v, used) = match r {
							Some((v, u)) => (Some(v), u),
							None => (None, 0),
						};
						if v != rv || (v.is_some() && used != rused) {
							rep.violation(
								&format!("input-dependence:decode_from_bytes:{}", ops.name),
								format!("{}: {} decodes differently from a shared buffer: slice -> {} consuming {}, decode_from_bytes -> {} consuming {}", ops.name, hex(&b[..b.len().min(48)]), rv.as_ref().map(show_val).unwrap_or("Err".into()), rused, v.as_ref().map(show_val).unwrap_or("Err".into()), used),
								replay_json("C08", ops, &b, &[("stack", jstr("decode_from_bytes"))]),
							);
						}
					},
				}
				// a zero-sized input type of unknown length, without type erasure in between
				rep.evaluations += 1;
				combos.insert((6, "-".into()));
				monitor::ops::zst_input_load(&b);
				match catch(|| (d.zst_val)()) {
					Err(p) => rep.violation(&format!("decode-panic:zero-sized-input:{}", ops.name), format!("{}: decoding through a zero-sized input type panicked: {p} on {}", ops.name, hex(&b[..b.len().min(48)])), replay_json("C08", ops, &b, &[("stack", jstr("zero-sized input"))])),
					Ok(v) => {
						let used = monitor::ops::zst_input_state().0;
						if v != rv || (v.is_some() && used != rused) {
							rep.violation(
								&format!("input-dependence:zero-sized-input:{}", ops.name),
								format!("{}: {} decodes differently from a zero-sized input type: slice -> {} consuming {}, zero-sized input -> {} consuming {}", ops.name, hex(&b[..b.len().min(48)]), rv.as_ref().map(show_val).unwrap_or("Err".into()), rused, v.as_ref().map(show_val).unwrap_or("Err".into()), used),
								replay_json("C08", ops, &b, &[("stack", jstr("zero-sized input"))]),
							);
						}
					},
				}
				if rep.want_sample() {
					rep.sample(sample_json(ops, origin, &b, &format!("slice: {} consuming {}", if rv.is_some() { "Ok" } else { "Err" }, rused)));
				}
			}
			prev = case.bytes;
		}
	}
	// zero-copy observation
	if ctx.shard == 0 {
		let mut rng = ctx.rng_for("zero-copy");
		for _ in 0..ctx.budget(1000, 20_000) {
			let n = rng.usize_below(200);
			let payload = rng.bytes(n);
			let enc = payload.encode();
			let buf = bytes::Bytes::from(enc);
			let range = buf.as_ptr() as usize..buf.as_ptr() as usize + buf.len();
			match parity_scale_codec::decode_from_bytes::<bytes::Bytes>(buf.clone()) {
				Ok(d) => {
					rep.evaluations += 1;
					if d[..] != payload[..] {
						rep.violation("zero-copy-value", format!("decode_from_bytes::<Bytes> returned different bytes for payload of {n}"), "{}".into());
					}
					if n > 0 && range.contains(&(d.as_ptr() as usize)) {
						rep.count("zero_copy_observed");
					}
				},
				Err(_) => rep.violation("zero-copy-reject", format!("decode_from_bytes::<Bytes> rejected a valid encoding of {n} bytes"), "{}".into()),
			}
		}
	}
	rep.add("distinct_stacks_seen", combos.len() as u64);
	finish(ctx, &rep);
}

// ------------------------------------------------------------------------------------------
// C14

pub fn c14(ctx: &Ctx) {
	let mut rep = Report::new("C14");
	let n = ctx.budget(1000, 40_000);
	let types = ctx.my_types();
	for ops in &types {
		if ops.dec.is_none() {
			continue;
		}
		let d = ops.d();
		let mut rng = ctx.rng_for(ops.name);
		note_types(&mut rep, ops);
		let mut prev = Vec::new();
		for i in 0..n {
			let case = gen_case(ops, &mut rng, i % 4 != 0);
			let enc = match catch(|| (ops.enc_plain)(&case.val)) {
				Ok(e) => e,
				Err(_) => continue, // C01's business
			};
			if enc.len() >= 2 {
				rep.nontrivial(key(ops, &enc));
			}
			// (1) every strict prefix fails
			let cuts: Vec<usize> = if enc.len() <= 512 {
				(0..enc.len()).collect()
			} else {
				let mut c: Vec<usize> = (0..64).map(|_| rng.usize_below(enc.len())).collect();
				for m in &case.marks {
					c.push(m.pos.min(enc.len() - 1));
					c.push((m.pos + m.len).min(enc.len() - 1));
				}
				c.push(enc.len() - 1);
				c
			};
			for cut in cuts {
				rep.evaluations += 1;
				rep.count("prefixes");
				let p = &enc[..cut];
				rep.begin(|| format!("C14 {} prefix {}", ops.name, hex(p)));
				let via_reader = cut % 7 == 3;
				let via_shared = cut % 7 == 5;
				let r = if via_shared {
					catch(|| (d.bytes)(p.to_vec()).map(|x| x.0))
				} else if via_reader {
					catch(|| {
						let mut r = IoReader(ShortReader::new(p, cut as u64, 5));
						(d.dynamic)(&mut r)
					})
				} else {
					catch(|| (d.slice)(p).0)
				};
				match r {
					Ok(None) => {},
					Ok(Some(v)) => rep.violation(
						&format!("prefix-accepted:{}:{}", if via_shared { "shared-buffer" } else if via_reader { "IoReader" } else { "slice" }, ops.name),
						format!("{}: the strict prefix ({cut} of {} bytes) of the encoding of {} decoded successfully to {} ({})", ops.name, enc.len(), show_val(&case.val), show_val(&v), if via_reader { "IoReader input" } else { "slice input" }),
						replay_json("C14", ops, p, &[("full", jstr(&hex(&enc)))]),
					),
					Err(pn) => rep.violation(&format!("decode-panic:{}", ops.name), format!("{}: decode of a prefix panicked: {pn}", ops.name), replay_json("C14", ops, p, &[])),
				}
			}
			// the whole encoding, value by value, from a shared buffer
			if enc.len() >= 1 {
				rep.evaluations += 1;
				match catch(|| (d.bytes)(enc.clone())) {
					Ok(Some((v, used))) if same_val(ops, &case.val, &v) && used == enc.len() => rep.count("shared_buffer_whole"),
					other => rep.violation(
						&format!("shared-buffer-whole:{}", ops.name),
						format!("{}: decoding the encoding of {} from a shared buffer gave {:?}", ops.name, show_val(&case.val), other.map(|o| o.map(|(v, u)| (show_val(&v), u)))),
						replay_json("C14", ops, &enc, &[]),
					),
				}
			}
			// (3) consume-all entry points on arbitrary strings
			for (b, origin) in hostile_strings(ops, &case, &prev, &mut rng, 3, 1) {
				rep.evaluations += 1;
				rep.count("consume_all_strings");
				let r = catch(|| ((d.slice)(&b), (d.all)(&b), (d.all_depth)(u32::MAX, &b)));
				match r {
					Err(p) => rep.violation(&format!("decode-panic:{}", ops.name), format!("{}: decode_all panicked: {p}", ops.name), replay_json("C14", ops, &b, &[])),
					Ok(((v, used), all, alld)) => {
						let expect = if v.is_some() && used == b.len() { v.clone() } else { None };
						if expect.is_some() {
							rep.count("consume_all_accepted");
						} else if v.is_some() {
							rep.count("consume_all_rejected_trailing");
						}
						if all != expect {
							rep.violation(&format!("decode-all:{}", ops.name), format!("{}: decode_all on {} ({origin}) gave {:?} but decode gave {:?} consuming {used} of {} bytes", ops.name, hex(&b[..b.len().min(48)]), all.as_ref().map(show_val), v.as_ref().map(show_val), b.len()), replay_json("C14", ops, &b, &[]));
						}
						if alld != expect {
							rep.violation(&format!("decode-all-depth:{}", ops.name), format!("{}: decode_all_with_depth_limit(MAX) on {} gave {:?} but decode gave {:?} consuming {used} of {} bytes", ops.name, hex(&b[..b.len().min(48)]), alld.as_ref().map(show_val), v.as_ref().map(show_val), b.len()), replay_json("C14", ops, &b, &[]));
						}
					},
				}
			}
			if rep.want_sample() && enc.len() >= 2 {
				rep.sample(sample_json(ops, "prefixes+consume-all", &enc, &show_val(&case.val)));
			}
			prev = case.bytes;
		}
	}
	// (2) concatenations of mixed types, decoded value by value from one input
	let dec_types: Vec<&&TypeOps> = types.iter().filter(|o| o.dec.is_some() && !o.has_tag("zst-elem")).collect();
	if !dec_types.is_empty() {
		let mut rng = ctx.rng_for("concat");
		for round in 0..ctx.budget(3000, 60_000) {
			let k = rng.range(2, 50) as usize;
			let mut parts: Vec<(&TypeOps, Val, usize)> = Vec::new();
			let mut all = Vec::new();
			for _ in 0..k {
				let ops = **rng.pick(&dec_types);
				let case = gen_case(ops, &mut rng, true);
				let enc = match catch(|| (ops.enc_plain)(&case.val)) {
					Ok(e) => e,
					Err(_) => continue,
				};
				all.extend_from_slice(&enc);
				parts.push((ops, case.val, enc.len()));
			}
			rep.evaluations += 1;
			rep.count("concatenations");
			rep.add("concatenated_values", parts.len() as u64);
			rep.nontrivial(hash64(&all));
			let which = round % 3;
			let wit = || jobj(&[("property", jstr("C14")), ("types", jstr(&parts.iter().map(|p| p.0.name).collect::<Vec<_>>().join(" ++ "))), ("bytes", jstr(&hex(&all)))]);
			let r = catch(|| {
				let mut spy = if which == 1 { SpyInput::unknown_len(&all) } else { SpyInput::new(&all) };
				let mut rd = IoReader(ShortReader::new(&all, round, 7));
				let mut off = 0usize;
				for (idx, (ops, val, len)) in parts.iter().enumerate() {
					let got = if which == 2 { (ops.d().dynamic)(&mut rd) } else { (ops.d().dynamic)(&mut spy) };
					let pos = if which == 2 { rd.0.pos } else { spy.pos };
					off += len;
					match got {
						Some(v) if same_val(ops, val, &v) && pos == off => {},
						Some(v) => return Some(format!("value #{idx} ({}) decoded as {} at position {pos}, expected {} ending at {off}", ops.name, show_val(&v), show_val(val))),
						None => return Some(format!("value #{idx} ({}) failed to decode from the concatenation", ops.name)),
					}
				}
				if off != all.len() {
					return Some("remainder is not empty".into());
				}
				None
			});
			match r {
				Ok(None) => {},
				Ok(Some(msg)) => rep.violation("concatenation", format!("concatenation of {} values: {msg}", parts.len()), wit()),
				Err(p) => rep.violation("decode-panic:concatenation", format!("decode panicked: {p}"), wit()),
			}
		}
	}
	finish(ctx, &rep);
}

// ------------------------------------------------------------------------------------------
// C18

fn logical_len(v: &Val) -> Option<usize> {
	match v {
		Val::Seq(xs) => Some(xs.len()),
		Val::Tuple(xs) => xs.first().and_then(logical_len),
		_ => None,
	}
}

pub fn c18(ctx: &Ctx) {
	let mut rep = Report::new("C18");
	let n = ctx.budget(1000, 100_000);
	for ops in ctx.my_types() {
		if ops.dec.is_none() {
			continue;
		}
		let d = ops.d();
		let mut rng = ctx.rng_for(ops.name);
		note_types(&mut rep, ops);
		let mut prev = Vec::new();
		for i in 0..n {
			let case = gen_case(ops, &mut rng, i % 3 != 0);
			let enc = match catch(|| (ops.enc_plain)(&case.val)) {
				Ok(e) => e,
				Err(_) => continue,
			};
			// (1) length peeking
			if let (Some(len_of), Some(n)) = (ops.len_of, logical_len(&case.val)) {
				rep.evaluations += 1;
				rep.count("len_peeks");
				rep.count(&format!("len_peeks:mode{}", match n {
					0..=63 => 1,
					64..=16383 => 2,
					16384..=0x3fff_ffff => 4,
					_ => 5,
				}));
				if enc.len() >= 2 {
					rep.nontrivial(key(ops, &enc));
				}
				match catch(|| len_of(&enc)) {
					Ok(Some(l)) if l == n => {},
					Ok(other) => rep.violation(&format!("decode-length:{}", ops.name), format!("{}: DecodeLength::len reports {:?} for a collection of {n} elements (encoding {})", ops.name, other, hex(&enc[..enc.len().min(24)])), replay_json("C18", ops, &enc, &[])),
					Err(p) => rep.violation(&format!("decode-length-panic:{}", ops.name), format!("{}: DecodeLength::len panicked: {p}", ops.name), replay_json("C18", ops, &enc, &[])),
				}
			}
			// (2) skip vs decode
			for (b, origin) in hostile_strings(ops, &case, &prev, &mut rng, 4, 2) {
				rep.evaluations += 1;
				rep.count("skip_cases");
				rep.begin(|| format!("C18 {} {} {}", ops.name, origin, hex(&b)));
				let mut s1 = SpyInput::new(&b);
				let mut s2 = SpyInput::new(&b);
				let r = catch(|| ((d.skip)(&mut s1), (d.dynamic)(&mut s2).is_some()));
				match r {
					Err(p) => rep.violation(&format!("skip-panic:{}", ops.name), format!("{}: skip/decode panicked: {p}", ops.name), replay_json("C18", ops, &b, &[])),
					Ok((sk, de)) => {
						if !b.is_empty() {
							rep.nontrivial(key(ops, &b) ^ 0x5157);
						}
						rep.count(if de { "skip_on_accepted" } else { "skip_on_rejected" });
						if sk != de {
							rep.violation(&format!("skip-outcome:{}", ops.name), format!("{}: on {} ({origin}) skip {} but decode {}", ops.name, hex(&b[..b.len().min(48)]), if sk { "succeeds" } else { "fails" }, if de { "succeeds" } else { "fails" }), replay_json("C18", ops, &b, &[]));
						} else if sk && s1.pos != s2.pos {
							rep.violation(&format!("skip-position:{}", ops.name), format!("{}: on {} skip advances the input to {} but decode to {}", ops.name, hex(&b[..b.len().min(48)]), s1.pos, s2.pos), replay_json("C18", ops, &b, &[]));
						} else if sk && s1.depth != s2.depth {
							// the input is left at a different nesting level: a following depth-limited
							// decode on the same input would behave differently
							rep.violation(&format!("skip-depth:{}", ops.name), format!("{}: on {} skip leaves the input at nesting depth {} but decode at {}", ops.name, hex(&b[..b.len().min(48)]), s1.depth, s2.depth), replay_json("C18", ops, &b, &[]));
						}
						// the same through a depth limiter that is just sufficient for decoding
						if de && s2.max_depth > 0 {
							let lim = s2.max_depth as u32;
							let mut s3 = SpyInput::new(&b);
							let mut ok3 = false;
							let _ = catch(|| {
								let mut cb = |i: &mut dyn Input| -> Result<(), Error> {
									ok3 = (d.skip)(i);
									Ok(())
								};
								let _ = with_stack(&mut s3, &[Layer::Depth(lim)], &mut cb);
							});
							rep.count("skip_under_depth_limit");
							if !ok3 {
								rep.violation(&format!("skip-depth-limit:{}", ops.name), format!("{}: on {} decode needs nesting depth {lim}, but skip fails under that depth limit", ops.name, hex(&b[..b.len().min(48)])), replay_json("C18", ops, &b, &[("limit", lim.to_string())]));
							}
						}
					},
				}
			}
			if rep.want_sample() && enc.len() >= 2 {
				rep.sample(sample_json(ops, "len+skip", &enc, &format!("logical length {:?}", logical_len(&case.val))));
			}
			prev = case.bytes;
		}
	}
	// all four compact modes of the count through zero-sized elements (encodings are the count alone)
	if ctx.shard == 0 && !ctx.is_slow() {
		use parity_scale_codec::DecodeLength;
		use std::collections::{BTreeMap, BTreeSet, BinaryHeap, LinkedList};
		for n in [0usize, 1, 63, 64, 16383, 16384, 70_000, (1 << 30) - 1, 1 << 30, (1 << 30) + 1, u32::MAX as usize] {
			let mut enc = Vec::new();
			compact_encode(n as u128, &mut enc);
			let rs: Vec<(&str, Result<usize, Error>)> = vec![
				("Vec<()>", <Vec<()> as DecodeLength>::len(&enc)),
				("VecDeque<()>", <VecDeque<()> as DecodeLength>::len(&enc)),
				("BTreeSet<()>", <BTreeSet<()> as DecodeLength>::len(&enc)),
				("BTreeMap<(),()>", <BTreeMap<(), ()> as DecodeLength>::len(&enc)),
				("BinaryHeap<()>", <BinaryHeap<()> as DecodeLength>::len(&enc)),
				("LinkedList<()>", <LinkedList<()> as DecodeLength>::len(&enc)),
				("(Vec<()>, u8)", <(Vec<()>, u8) as DecodeLength>::len(&enc)),
				("(Vec<()>,u8,u8,u8,u8,u8,u8,u8,u8,u8,u8,u8,u8,u8,u8,u8,u8,u8)", <(Vec<()>, u8, u8, u8, u8, u8, u8, u8, u8, u8, u8, u8, u8, u8, u8, u8, u8, u8) as DecodeLength>::len(&enc)),
			];
			for (name, r) in rs {
				rep.evaluations += 1;
				rep.count("len_peeks_count_only");
				if r != Ok(n) {
					rep.violation(&format!("decode-length:{name}"), format!("{name}: len({}) = {:?}, expected {n}", hex(&enc), r), "{}".into());
				}
			}
			// and a real Vec<()> of that many elements encodes to exactly that prefix
			if n <= 1 << 30 {
				let v = vec![(); n];
				if v.encode() != enc {
					rep.violation("decode-length:Vec<()>-encode", format!("Vec<()> of {n} encodes as {}", hex(&v.encode())), "{}".into());
				}
			}
		}
	}
	finish(ctx, &rep);
}

// ------------------------------------------------------------------------------------------
// C19

/// Sits above the `CountedInput` and checks its counter after every single request.
struct StepChecker<'a, 'b> {
	inner: CountedInput<'a, SpyInput<'b>>,
	expected: u64,
	start: u64,
	steps: u64,
	errors: Vec<String>,
}

impl<'a, 'b> StepChecker<'a, 'b> {
	fn after(&mut self, what: &str) {
		self.steps += 1;
		let c = self.inner.count();
		if c != self.expected && self.errors.len() < 3 {
			self.errors.push(format!("after {what} #{}: count() = {} but {} bytes were delivered (start {})", self.steps, c, self.expected, self.start));
		}
	}
}

impl<'a, 'b> Input for StepChecker<'a, 'b> {
	fn remaining_len(&mut self) -> Result<Option<usize>, Error> {
		let r = self.inner.remaining_len();
		self.after("remaining_len");
		r
	}
	fn read(&mut self, into: &mut [u8]) -> Result<(), Error> {
		let r = self.inner.read(into);
		if r.is_ok() {
			self.expected = self.expected.saturating_add(into.len() as u64);
		}
		self.after(if r.is_ok() { "read" } else { "failed read" });
		r
	}
	fn read_byte(&mut self) -> Result<u8, Error> {
		let r = self.inner.read_byte();
		if r.is_ok() {
			self.expected = self.expected.saturating_add(1);
		}
		self.after(if r.is_ok() { "read_byte" } else { "failed read_byte" });
		r
	}
	fn descend_ref(&mut self) -> Result<(), Error> {
		let r = self.inner.descend_ref();
		self.after("descend_ref");
		r
	}
	fn ascend_ref(&mut self) {
		self.inner.ascend_ref();
		self.after("ascend_ref");
	}
	fn on_before_alloc_mem(&mut self, size: usize) -> Result<(), Error> {
		let r = self.inner.on_before_alloc_mem(size);
		self.after("on_before_alloc_mem");
		r
	}
}

#[cfg(psc_verif)]
fn counted_from<'a, 'b>(spy: &'a mut SpyInput<'b>, start: u64) -> CountedInput<'a, SpyInput<'b>> {
	CountedInput::verif_with_count(spy, start)
}
#[cfg(not(psc_verif))]
fn counted_from<'a, 'b>(spy: &'a mut SpyInput<'b>, _start: u64) -> CountedInput<'a, SpyInput<'b>> {
	CountedInput::new(spy)
}
pub const HAVE_HOOK: bool = cfg!(psc_verif);

pub fn c19(ctx: &Ctx) {
	let mut rep = Report::new("C19");
	let n = ctx.budget(1000, 100_000);
	for ops in ctx.my_types() {
		if ops.dec.is_none() {
			continue;
		}
		let d = ops.d();
		let mut rng = ctx.rng_for(ops.name);
		note_types(&mut rep, ops);
		let mut prev = Vec::new();
		for i in 0..n {
			let case = gen_case(ops, &mut rng, i % 3 != 0);
			for (b, origin) in hostile_strings(ops, &case, &prev, &mut rng, 4, 2) {
				// plain, with an injected inner failure, and (with the hook) near saturation
				for variant in 0..3 {
					let fault = if variant == 1 { Fault::FailAt(rng.below(6)) } else { Fault::None };
					let start = if variant == 2 && HAVE_HOOK { u64::MAX - rng.below(b.len() as u64 + 3) } else { 0 };
					if variant == 2 && !HAVE_HOOK {
						continue;
					}
					rep.evaluations += 1;
					rep.begin(|| format!("C19 {} {} {} variant {variant}", ops.name, origin, hex(&b)));
					let mut spy = SpyInput::new(&b).with_fault(fault);
					let r = catch(|| {
						let counted = counted_from(&mut spy, start);
						let mut chk = StepChecker { inner: counted, expected: start, start, steps: 0, errors: Vec::new() };
						let v = (d.dynamic)(&mut chk);
						(v.is_some(), chk.inner.count(), chk.steps, chk.errors)
					});
					match r {
						Err(p) => rep.violation(&format!("counted-panic:{}", ops.name), format!("{}: decode through CountedInput panicked: {p} (start {start})", ops.name), replay_json("C19", ops, &b, &[("start", start.to_string())])),
						Ok((ok, count, steps, errors)) => {
							rep.add("requests_checked", steps);
							if !b.is_empty() {
								rep.nontrivial(key(ops, &b) ^ variant as u64);
							}
							rep.count(if ok { "after_success" } else { "after_failure" });
							if spy.reads_failed > 0 {
								rep.count("cases_with_failed_reads");
							}
							let want = start.saturating_add(spy.delivered);
							if variant == 2 && want == u64::MAX {
								rep.count("saturated_cases");
							}
							for e in errors {
								rep.violation(&format!("counted-step:{}", ops.name), format!("{}: {e} on {} ({origin})", ops.name, hex(&b[..b.len().min(48)])), replay_json("C19", ops, &b, &[("start", start.to_string())]));
							}
							if count != want {
								rep.violation(&format!("counted-total:{}", ops.name), format!("{}: count() = {count} after {} but the wrapped input delivered {} bytes (start {start}) on {}", ops.name, if ok { "success" } else { "failure" }, spy.delivered, hex(&b[..b.len().min(48)])), replay_json("C19", ops, &b, &[("start", start.to_string())]));
							}
							if ok && variant == 0 && spy.pos as u64 != count {
								rep.violation(&format!("counted-consumed:{}", ops.name), format!("{}: count() = {count} but {} bytes were consumed", ops.name, spy.pos), replay_json("C19", ops, &b, &[]));
							}
						},
					}
				}
				// the same without any type erasure between decoder and counter
				{
					rep.evaluations += 1;
					rep.count("direct_counted_decodes");
					let start = if HAVE_HOOK && rng.chance(1, 3) { u64::MAX - rng.below(b.len() as u64 + 3) } else { 0 };
					match catch(|| (d.counted)(&b, start)) {
						Err(p) => rep.violation(&format!("counted-panic:{}", ops.name), format!("{}: direct decode through CountedInput panicked: {p}", ops.name), replay_json("C19", ops, &b, &[])),
						Ok((ok, count, delivered, pos)) => {
							if count != start.saturating_add(delivered) {
								rep.violation(&format!("counted-total-direct:{}", ops.name), format!("{}: count() = {count} after {} but the wrapped input delivered {delivered} bytes (start {start}) on {}", ops.name, if ok { "success" } else { "failure" }, hex(&b[..b.len().min(48)])), replay_json("C19", ops, &b, &[("start", start.to_string())]));
							} else if ok && start == 0 && pos as u64 != count {
								rep.violation(&format!("counted-consumed-direct:{}", ops.name), format!("{}: count() = {count} but {pos} bytes were consumed", ops.name), replay_json("C19", ops, &b, &[]));
							}
						},
					}
				}
				// over the library's own slice input: what the counter says is what the slice gave up,
				// also after a failed decode
				{
					rep.evaluations += 1;
					rep.count("slice_counted_decodes");
					match catch(|| (d.counted_slice)(&b)) {
						Err(p) => rep.violation(&format!("counted-panic:{}", ops.name), format!("{}: decode through CountedInput<&[u8]> panicked: {p}", ops.name), replay_json("C19", ops, &b, &[])),
						Ok((ok, count, advanced)) =>
							if count != advanced as u64 {
								rep.violation(&format!("counted-slice:{}", ops.name), format!("{}: count() = {count} after {} but the wrapped slice advanced by {advanced} bytes on {}", ops.name, if ok { "success" } else { "failure" }, hex(&b[..b.len().min(48)])), replay_json("C19", ops, &b, &[]));
							},
					}
				}
				if rep.want_sample() && !b.is_empty() {
					rep.sample(sample_json(ops, origin, &b, "count() checked after every request"));
				}
			}
			prev = case.bytes;
		}
	}
	rep.add("hook_available", HAVE_HOOK as u64);
	finish(ctx, &rep);
}

#[allow(dead_code)]
fn _keep(_: &mut dyn Output, _: SpyOutput) {}

//! C10: failed or panicking decodes release everything exactly once (fault enumeration over a
//! construction/drop ledger; the same binary runs under Miri / ASan+LSan / valgrind).

use crate::common::*;
use generic_array::{typenum, GenericArray};
use monitor::bridge::Modelled;
use monitor::ledger::{self, Tracked, TrackedZst, CTL_ERR, CTL_PANIC};
use monitor::model::*;
use monitor::ops::TypeOps;
use monitor::report::{catch, hash64, jobj, jstr, Report};
use monitor::rng::Rng;
use monitor::spy::{with_stack, Ev, Fault, Layer, SpyInput};
use parity_scale_codec::{Decode, DecodeWithMemTracking, Encode, Error, Input};
use std::collections::{BTreeMap, BTreeSet, BinaryHeap, LinkedList, VecDeque};
use std::rc::Rc;
use std::sync::Arc;

fn f(v: &Val) -> &Vec<Val> {
	match v {
		Val::Tuple(xs) => xs,
		_ => panic!("c10: struct value expected"),
	}
}

#[derive(Encode, Decode, DecodeWithMemTracking)]
pub struct DS {
	a: Tracked,
	#[codec(skip)]
	s: Tracked,
	b: Vec<Tracked>,
	c: Box<Tracked>,
	d: [Tracked; 2],
}
impl Modelled for DS {
	fn ty() -> Ty {
		Ty::Struct {
			name: "DS".into(),
			fields: vec![
				FieldTy::plain(Tracked::ty()),
				FieldTy::skip(Tracked::ty()),
				FieldTy::plain(Vec::<Tracked>::ty()),
				FieldTy::plain(Box::<Tracked>::ty()),
				FieldTy::plain(<[Tracked; 2]>::ty()),
			],
		}
	}
	fn to_val(&self) -> Val {
		Val::Tuple(vec![self.a.to_val(), Val::Unit, self.b.to_val(), self.c.to_val(), self.d.to_val()])
	}
	fn from_val(v: &Val) -> Self {
		let x = f(v);
		DS { a: Tracked::from_val(&x[0]), s: Default::default(), b: Vec::from_val(&x[2]), c: Box::from_val(&x[3]), d: <[Tracked; 2]>::from_val(&x[4]) }
	}
}

#[derive(Encode, Decode, DecodeWithMemTracking)]
pub enum DE {
	A(Tracked, Tracked),
	B { x: Box<Tracked>, y: Option<Tracked>, #[codec(skip)] s: Tracked, z: Tracked },
	C,
}
impl Modelled for DE {
	fn ty() -> Ty {
		Ty::Enum {
			name: "DE".into(),
			variants: vec![
				VariantTy { name: "A".into(), index: 0, skipped: false, fields: vec![FieldTy::plain(Tracked::ty()), FieldTy::plain(Tracked::ty())] },
				VariantTy {
					name: "B".into(),
					index: 1,
					skipped: false,
					fields: vec![FieldTy::plain(Box::<Tracked>::ty()), FieldTy::plain(Option::<Tracked>::ty()), FieldTy::skip(Tracked::ty()), FieldTy::plain(Tracked::ty())],
				},
				VariantTy { name: "C".into(), index: 2, skipped: false, fields: vec![] },
			],
		}
	}
	fn to_val(&self) -> Val {
		match self {
			DE::A(a, b) => Val::Variant(0, vec![a.to_val(), b.to_val()]),
			DE::B { x, y, z, .. } => Val::Variant(1, vec![x.to_val(), y.to_val(), Val::Unit, z.to_val()]),
			DE::C => Val::Variant(2, vec![]),
		}
	}
	fn from_val(v: &Val) -> Self {
		match v {
			Val::Variant(0, x) => DE::A(Tracked::from_val(&x[0]), Tracked::from_val(&x[1])),
			Val::Variant(1, x) => DE::B { x: Box::from_val(&x[0]), y: Option::from_val(&x[1]), s: Default::default(), z: Tracked::from_val(&x[3]) },
			_ => DE::C,
		}
	}
}

/// transparent newtype over an array: derived in-place `decode_into`
#[derive(Encode, Decode, DecodeWithMemTracking)]
#[repr(transparent)]
pub struct DT([Tracked; 3]);
impl Modelled for DT {
	fn ty() -> Ty {
		Ty::Struct { name: "DT".into(), fields: vec![FieldTy::plain(<[Tracked; 3]>::ty())] }
	}
	fn to_val(&self) -> Val {
		Val::Tuple(vec![self.0.to_val()])
	}
	fn from_val(v: &Val) -> Self {
		DT(<[Tracked; 3]>::from_val(&f(v)[0]))
	}
}

#[derive(Encode, Decode, DecodeWithMemTracking)]
#[repr(transparent)]
pub struct DTZ(core::marker::PhantomData<u8>, [Box<Tracked>; 2], ());
impl Modelled for DTZ {
	fn ty() -> Ty {
		Ty::Struct { name: "DTZ".into(), fields: vec![FieldTy::plain(Ty::Unit), FieldTy::plain(<[Box<Tracked>; 2]>::ty()), FieldTy::plain(Ty::Unit)] }
	}
	fn to_val(&self) -> Val {
		Val::Tuple(vec![Val::Unit, self.1.to_val(), Val::Unit])
	}
	fn from_val(v: &Val) -> Self {
		DTZ(Default::default(), <[Box<Tracked>; 2]>::from_val(&f(v)[1]), ())
	}
}

/// An element of ~2 KiB: only eight fit into one 16 KiB reservation chunk, so a vector of a dozen
/// spans two chunks (its encoding is still one control byte).
pub struct BigTracked(Tracked, [u64; 250]);
impl Encode for BigTracked {
	fn encode_to<W: parity_scale_codec::Output + ?Sized>(&self, dest: &mut W) {
		self.0.encode_to(dest)
	}
}
impl Decode for BigTracked {
	fn decode<I: Input>(input: &mut I) -> Result<Self, Error> {
		Ok(BigTracked(Tracked::decode(input)?, [0x5a5a; 250]))
	}
}
impl DecodeWithMemTracking for BigTracked {}
impl Modelled for BigTracked {
	fn ty() -> Ty {
		Tracked::ty()
	}
	fn to_val(&self) -> Val {
		self.0.to_val()
	}
	fn from_val(v: &Val) -> Self {
		BigTracked(Tracked::from_val(v), [0x5a5a; 250])
	}
}

#[derive(Encode, Decode, DecodeWithMemTracking)]
#[repr(transparent)]
pub struct DTZ2(core::marker::PhantomData<u8>, (), Box<Tracked>);
impl Modelled for DTZ2 {
	fn ty() -> Ty {
		Ty::Struct { name: "DTZ2".into(), fields: vec![FieldTy::plain(Ty::Unit), FieldTy::plain(Ty::Unit), FieldTy::plain(<Box<Tracked>>::ty())] }
	}
	fn to_val(&self) -> Val {
		Val::Tuple(vec![Val::Unit, Val::Unit, self.2.to_val()])
	}
	fn from_val(v: &Val) -> Self {
		DTZ2(Default::default(), (), Box::from_val(&f(v)[2]))
	}
}

#[derive(Encode, Decode, DecodeWithMemTracking)]
#[repr(transparent)]
pub struct DTZ3 {
	z: [(); 3],
	t: Tracked,
}
impl Modelled for DTZ3 {
	fn ty() -> Ty {
		Ty::Struct { name: "DTZ3".into(), fields: vec![FieldTy::plain(<[(); 3]>::ty()), FieldTy::plain(Tracked::ty())] }
	}
	fn to_val(&self) -> Val {
		Val::Tuple(vec![self.z.to_val(), self.t.to_val()])
	}
	fn from_val(v: &Val) -> Self {
		DTZ3 { z: [(); 3], t: Tracked::from_val(&f(v)[1]) }
	}
}

/// transparent newtypes with a SKIPPED zero-sized field whose `Default` and `Drop` are visible in the
/// ledger: however the value is decoded (in place behind Box / Rc / Arc / arrays, or by value), the
/// skipped field must be constructed exactly once and dropped exactly once
#[derive(Encode, Decode, DecodeWithMemTracking)]
#[repr(transparent)]
pub struct DTS(Tracked, #[codec(skip)] TrackedZst);
impl Modelled for DTS {
	fn ty() -> Ty {
		Ty::Struct { name: "DTS".into(), fields: vec![FieldTy::plain(Tracked::ty()), FieldTy::skip(Ty::Unit)] }
	}
	fn to_val(&self) -> Val {
		Val::Tuple(vec![self.0.to_val(), Val::Unit])
	}
	fn from_val(v: &Val) -> Self {
		DTS(Tracked::from_val(&f(v)[0]), TrackedZst::new())
	}
}

#[derive(Encode, Decode, DecodeWithMemTracking)]
#[repr(transparent)]
pub struct DTS2 {
	#[codec(skip)]
	tok: TrackedZst,
	inner: [Tracked; 2],
	#[codec(skip)]
	tok2: TrackedZst,
}
impl Modelled for DTS2 {
	fn ty() -> Ty {
		Ty::Struct { name: "DTS2".into(), fields: vec![FieldTy::skip(Ty::Unit), FieldTy::plain(<[Tracked; 2]>::ty()), FieldTy::skip(Ty::Unit)] }
	}
	fn to_val(&self) -> Val {
		Val::Tuple(vec![Val::Unit, self.inner.to_val(), Val::Unit])
	}
	fn from_val(v: &Val) -> Self {
		DTS2 { tok: TrackedZst::new(), inner: <[Tracked; 2]>::from_val(&f(v)[1]), tok2: TrackedZst::new() }
	}
}

fn containers(slow: bool) -> Vec<TypeOps> {
	let mut v: Vec<TypeOps> = Vec::new();
	macro_rules! k { ($($t:ty),* $(,)?) => { $( v.push(monitor::probe_ops!($t)); )* } }
	k!(
		[Tracked; 0], [Tracked; 1], [Tracked; 2], [Tracked; 3], [Tracked; 8],
		Box<Tracked>, Box<[Tracked; 1]>, Box<[Tracked; 3]>, Box<[Tracked; 8]>,
		Rc<Tracked>, Arc<Tracked>, Rc<[Tracked; 3]>, Arc<[Tracked; 3]>,
		Vec<Tracked>, VecDeque<Tracked>, BTreeMap<u8, Tracked>, BTreeSet<Tracked>, BinaryHeap<Tracked>, LinkedList<Tracked>,
		Option<Tracked>, Result<Tracked, Tracked>, (Tracked, Tracked, Tracked), (Tracked, Vec<Tracked>, Box<Tracked>),
		DS, DE, DT, DTZ, Box<DT>, [DT; 2], Box<DTZ>, Vec<DT>,
		Box<[Box<Tracked>; 3]>, Vec<[Tracked; 3]>, Vec<Vec<Tracked>>, [Vec<Tracked>; 3], Box<[[Tracked; 2]; 2]>, Vec<Box<[Tracked; 2]>>,
		[Box<Tracked>; 8], Vec<Box<Tracked>>, Vec<Result<Tracked, Box<Tracked>>>, [Option<Box<Tracked>>; 8], Vec<Rc<Tracked>>, [Arc<Tracked>; 3],
		BTreeMap<u8, Vec<Tracked>>, LinkedList<Box<Tracked>>, Option<Box<[Tracked; 3]>>, Box<Option<Tracked>>, Box<Box<Box<Tracked>>>,
		[TrackedZst; 5], Box<[TrackedZst; 3]>, Vec<TrackedZst>, [[TrackedZst; 2]; 3], Box<TrackedZst>, (TrackedZst, Tracked, TrackedZst), Vec<Box<TrackedZst>>,
		GenericArray<Tracked, typenum::U3>, Vec<GenericArray<Tracked, typenum::U2>>,
		std::borrow::Cow<'static, [DupTracked]>,
		DTZ2, Box<DTZ2>, [DTZ2; 2], DTZ3, Box<DTZ3>, [DTZ3; 3], Rc<DTZ3>, Vec<DTZ2>,
		DTS, Box<DTS>, [DTS; 3], Rc<DTS>, Arc<DTS>, Vec<DTS>, DTS2, Box<DTS2>, [DTS2; 2], Vec<Box<DTS2>>,
		Vec<BigTracked>, VecDeque<BigTracked>, BinaryHeapBig, Vec<Vec<BigTracked>>,
		// pointers to plain primitives: nothing for the ledger to see, but every decoded pointer
		// must own a real allocation - dropping the value is watched by Miri / ASan / the allocator
		Vec<Box<u64>>, [Box<u8>; 4], [Rc<u16>; 3], VecDeque<Arc<u32>>, Vec<Rc<i128>>, Box<[Box<u16>; 2]>, Vec<Arc<f64>>, [Arc<i8>; 5],
	);
	if !slow {
		k!([Tracked; 40], Box<[Tracked; 40]>, [Box<Tracked>; 40], Box<[Vec<Tracked>; 8]>, Vec<[Tracked; 8]>);
	}
	v
}

type BinaryHeapBig = (u8, Vec<BigTracked>);

/// `Cow<[T]>` needs `T: Clone`; cloning an instrumented element registers a new instance.
#[derive(Encode, Decode, DecodeWithMemTracking)]
pub struct DupTracked(Tracked);
impl Clone for DupTracked {
	fn clone(&self) -> Self {
		DupTracked(Tracked::new(self.0.tag))
	}
}
impl Modelled for DupTracked {
	fn ty() -> Ty {
		Tracked::ty()
	}
	fn to_val(&self) -> Val {
		self.0.to_val()
	}
	fn from_val(v: &Val) -> Self {
		DupTracked(Tracked::from_val(v))
	}
}

/// Replace the tag of every instrumented element by distinct "construct" tags (>= 3).
fn set_tags(ty: &Ty, v: &mut Val, next: &mut u8) {
	match (ty, v) {
		(Ty::Struct { name, .. }, Val::Tuple(xs)) if name == "Tracked" => {
			xs[0] = Val::Int(*next as u128);
			*next = if *next >= 250 { 3 } else { *next + 1 };
		},
		(Ty::Option(t), Val::Opt(Some(x))) => set_tags(t, x, next),
		(Ty::Result(a, _), Val::Res(Ok(x))) => set_tags(a, x, next),
		(Ty::Result(_, b), Val::Res(Err(x))) => set_tags(b, x, next),
		(Ty::Seq { elem, .. }, Val::Seq(xs)) | (Ty::Array(elem, _), Val::Seq(xs)) => xs.iter_mut().for_each(|x| set_tags(elem, x, next)),
		(Ty::Map(k, val), Val::Seq(xs)) =>
			for x in xs {
				if let Val::Tuple(kv) = x {
					set_tags(k, &mut kv[0], next);
					set_tags(val, &mut kv[1], next);
				}
			},
		(Ty::Tuple(ts), Val::Tuple(xs)) => ts.iter().zip(xs).for_each(|(t, x)| set_tags(t, x, next)),
		(Ty::Ptr(t, _), x) => set_tags(t, x, next),
		(Ty::Struct { fields, .. }, Val::Tuple(xs)) =>
			for (fl, x) in fields.iter().zip(xs) {
				if let Some(w) = &fl.wire {
					set_tags(w, x, next);
				}
			},
		(Ty::Enum { variants, .. }, Val::Variant(i, xs)) =>
			for (fl, x) in variants[*i].fields.iter().zip(xs) {
				if let Some(w) = &fl.wire {
					set_tags(w, x, next);
				}
			},
		_ => {},
	}
}

struct Outcome {
	ok: bool,
	panicked: bool,
	constructed: u64,
}

/// One monitored execution: decode `bytes` as `ops` through `layers` over a spy with `fault`,
/// drop whatever came out, then check the ledger at the quiescent point.
fn run_case(ops: &TypeOps, bytes: &[u8], fault: Fault, layers: &[Layer], what: &str, rep: &mut Report) -> Outcome {
	ledger::reset();
	rep.evaluations += 1;
	rep.begin(|| format!("C10 {} {} {}", ops.name, what, hex(bytes)));
	let d = ops.d();
	let mut spy = SpyInput::new(bytes).with_fault(fault);
	let r = catch(|| {
		let mut kept = None;
		let mut cb = |i: &mut dyn Input| -> Result<(), Error> {
			kept = (d.keep)(i);
			Ok(())
		};
		let _ = with_stack(&mut spy, layers, &mut cb);
		kept
	});
	let (ok, panicked) = match &r {
		Ok(Some(_)) => (true, false),
		Ok(None) => (false, false),
		Err(_) => (false, true),
	};
	let constructed = ledger::constructed_now();
	// the decoded value (if any) stays alive until here: everything constructed so far that was
	// not handed over must already be gone
	if let Ok(Some(obj)) = r {
		let live_with_value = ledger::live_now();
		let _ = live_with_value;
		drop(obj);
	}
	let wit = || {
		jobj(&[
			("property", jstr("C10")),
			("type", jstr(ops.name)),
			("bytes", jstr(&hex(bytes))),
			("fault", jstr(what)),
		])
	};
	match ledger::settle() {
		Ok(_) => {},
		Err(e) => {
			let kind = if e.contains("leak") {
				"leak"
			} else if e.contains("not live") || e.contains("times with only") {
				"double-drop"
			} else if e.contains("corrupted") {
				"corrupt"
			} else {
				"imbalance"
			};
			rep.violation(
				&format!("{kind}:{}", ops.name),
				format!("{}: after {} ({}), {} constructed: {e}", ops.name, what, if ok { "Ok, value dropped" } else if panicked { "panic" } else { "Err" }, constructed),
				wit(),
			);
		},
	}
	if constructed >= 1 && !ok {
		rep.nontrivial(hash64(&(ops.name, bytes, what)));
	}
	rep.count(if ok { "outcome_ok" } else if panicked { "outcome_panic" } else { "outcome_err" });
	Outcome { ok, panicked, constructed }
}

pub fn c10(ctx: &Ctx) {
	let mut rep = Report::new("C10");
	let types = containers(ctx.is_slow());
	let nvals = ctx.budget(600, 6000);
	for (ti, ops) in types.iter().enumerate() {
		if ti % ctx.nshards != ctx.shard {
			continue;
		}
		if ctx.only_type.as_ref().map_or(false, |n| n != ops.name) {
			continue;
		}
		note_types(&mut rep, ops);
		let mut rng: Rng = ctx.rng_for(ops.name);
		for vi in 0..nvals {
			// a value of the container with distinct "construct" tags, never touching the ledger
			let mut val = {
				let mut g = monitor::gen::Gen::small(&mut rng);
				g.max_len = if ctx.is_slow() && !ops.name.contains("BigTracked") { 3 } else if vi % 3 == 2 { 40 } else { 12 };
				if ctx.is_slow() {
					g.budget = 24;
				}
				g.val(&ops.ty)
			};
			let mut next = 3u8;
			set_tags(&ops.ty, &mut val, &mut next);
			let mut enc = Encoder::new();
			enc.watch_struct = Some("Tracked");
			enc.enc(&ops.ty, &val);
			let bytes = enc.out.clone();
			let ctl = enc.watch_positions.clone();

			// success run, traced: how many requests, which allocations, how deep
			ledger::reset();
			let mut spy = SpyInput::new(&bytes).traced();
			let kept = catch(|| (ops.d().keep)(&mut spy));
			let trace = spy.trace.take().unwrap_or_default();
			let requests = spy.requests;
			let max_depth = spy.max_depth;
			match kept {
				Ok(Some(obj)) => {
					drop(obj);
					if let Err(e) = ledger::settle() {
						rep.violation(&format!("imbalance-after-success:{}", ops.name), format!("{}: successful decode then drop: {e}", ops.name), jobj(&[("type", jstr(ops.name)), ("bytes", jstr(&hex(&bytes)))]));
					}
					rep.count("success_runs");
				},
				Ok(None) => {
					// sets / maps may legitimately collapse; anything else must decode
					rep.violation(&format!("valid-rejected:{}", ops.name), format!("{}: the all-success input {} was rejected", ops.name, hex(&bytes)), jobj(&[("type", jstr(ops.name)), ("bytes", jstr(&hex(&bytes)))]));
					continue;
				},
				Err(p) => {
					rep.violation(&format!("valid-panicked:{}", ops.name), format!("{}: the all-success input panicked: {p}", ops.name), jobj(&[("type", jstr(ops.name)), ("bytes", jstr(&hex(&bytes)))]));
					continue;
				},
			}
			rep.evaluations += 1;

			// (a) element faults at every element index: malformed, panic
			for (idx, &p) in ctl.iter().enumerate() {
				for (kind, byte) in [("malformed-element", CTL_ERR), ("panic-in-element", CTL_PANIC)] {
					let mut b = bytes.clone();
					b[p] = byte;
					let o = run_case(ops, &b, Fault::None, &[], &format!("{kind}@{idx}"), &mut rep);
					rep.count(&format!("fault:{kind}"));
					if o.constructed >= 1 {
						rep.count(&format!("fault_after_construction:{kind}"));
					}
					let _ = (o.ok, o.panicked);
				}
			}
			// (b) input exhausted at every cut point
			for cut in 0..bytes.len() {
				let o = run_case(ops, &bytes[..cut], Fault::None, &[], &format!("exhausted@{cut}"), &mut rep);
				rep.count("fault:exhausted");
				if o.constructed >= 1 {
					rep.count("fault_after_construction:exhausted");
				}
			}
			// (c) the input itself fails / panics at every request
			for k in 0..requests {
				for (kind, fault) in [("input-error", Fault::FailAt(k)), ("panic-in-input", Fault::PanicAt(k))] {
					let o = run_case(ops, &bytes, fault, &[], &format!("{kind}@{k}"), &mut rep);
					rep.count(&format!("fault:{kind}"));
					if o.constructed >= 1 {
						rep.count(&format!("fault_after_construction:{kind}"));
					}
				}
			}
			// (d) memory limit tripping at every announced allocation
			let mut sum = 0usize;
			let mut limits = Vec::new();
			for e in &trace {
				if let Ev::Alloc(n) = e {
					sum = sum.saturating_add(*n);
					limits.push(sum);
				}
			}
			limits.dedup();
			for l in limits {
				let o = run_case(ops, &bytes, Fault::None, &[Layer::Mem(l)], &format!("mem-limit={l}"), &mut rep);
				rep.count("fault:mem-limit");
				if o.constructed >= 1 && !o.ok {
					rep.count("fault_after_construction:mem-limit");
				}
			}
			// (e) depth limit tripping at every level
			for l in 0..=max_depth.max(0) as u32 {
				let o = run_case(ops, &bytes, Fault::None, &[Layer::Depth(l)], &format!("depth-limit={l}"), &mut rep);
				rep.count("fault:depth-limit");
				if o.constructed >= 1 && !o.ok {
					rep.count("fault_after_construction:depth-limit");
				}
			}
			if rep.want_sample() || (vi == 0 && rep.samples.len() < 3) {
				rep.sample(jobj(&[
					("type", jstr(ops.name)),
					("all_success_input", jstr(&hex(&bytes))),
					("element_positions", jstr(&format!("{:?}", ctl))),
					("requests", requests.to_string()),
					("max_depth", max_depth.to_string()),
				]));
			}
		}
	}
	finish(ctx, &rep);
}

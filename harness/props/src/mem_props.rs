//! C09 (memory bounded by input), C11 (depth-limited decoding), C12 (memory-limited decoding).

use crate::common::*;
use crate::io_props::hostile_strings;
use monitor::alloc::{self, AllocStats};
use monitor::model::*;
use monitor::ops::TypeOps;
use monitor::report::{catch, hash64, jobj, jstr, Report};
use monitor::rng::Rng;
use monitor::spy::{with_stack, Dyn, Layer, SpyInput};
use parity_scale_codec::{Error, Input, MemTrackingInput};

// ------------------------------------------------------------------------------------------
// C09

#[derive(Clone, Copy, PartialEq, Eq, Debug)]
enum Via {
	Slice,
	Unknown,
	Shared,
	/// a zero-sized input type of unknown length, decoded through without type erasure
	Zst,
}

fn measure(ops: &TypeOps, b: &[u8], via: Via) -> (AllocStats, bool, u64) {
	let d = ops.d();
	match via {
		Via::Slice | Via::Unknown => {
			let mut spy = if via == Via::Slice { SpyInput::new(b) } else { SpyInput::unknown_len(b) };
			alloc::begin();
			let kept = (d.keep)(&mut spy);
			let st = alloc::end();
			let ok = kept.is_some();
			drop(kept);
			(st, ok, spy.delivered)
		},
		Via::Zst => {
			monitor::ops::zst_input_load(b);
			alloc::begin();
			let kept = (d.zst_keep)();
			let st = alloc::end();
			let ok = kept.is_some();
			drop(kept);
			(st, ok, monitor::ops::zst_input_state().1)
		},
		Via::Shared => {
			let owned = b.to_vec();
			alloc::begin();
			let kept = (d.bytes_keep)(owned);
			let st = alloc::end();
			let ok = kept.is_some();
			drop(kept);
			(st, ok, b.len() as u64)
		},
	}
}

/// per-level per-delivered-byte memory factor and nesting levels, from the schema
fn mem_shape(ty: &Ty, depth: u32) -> (f64, u32) {
	if depth > 8 {
		return (1.0, 0);
	}
	let mut alpha: f64 = 0.0;
	let mut levels = 0u32;
	let mut sub = |t: &Ty, alpha: &mut f64, levels: &mut u32| {
		let (a, l) = mem_shape(t, depth + 1);
		*alpha = alpha.max(a);
		*levels = (*levels).max(l);
	};
	match ty {
		Ty::Seq { elem, elem_mem, kind } => {
			sub(elem, &mut alpha, &mut levels);
			let per = *elem_mem as f64 + if *kind == SeqKind::List { 16.0 } else { 0.0 };
			let a = per.max(1.0) / (elem.min_len().max(1) as f64);
			alpha = alpha.max(a);
			levels += 1;
		},
		Ty::Map(k, v) => {
			sub(k, &mut alpha, &mut levels);
			sub(v, &mut alpha, &mut levels);
			alpha = alpha.max(64.0 / ((k.min_len() + v.min_len()).max(1) as f64));
			levels += 1;
		},
		Ty::Str | Ty::Bits { .. } => {
			alpha = alpha.max(1.0);
			levels += 1;
		},
		Ty::Ptr(t, k) => {
			sub(t, &mut alpha, &mut levels);
			if matches!(k, PtrKind::Box | PtrKind::Rc | PtrKind::Arc) {
				// one heap object per pointer: header + pointee, paid for by at least min_len bytes
				let pointee = t.max_len().unwrap_or(64) as f64;
				alpha = alpha.max((32.0 + pointee) / (t.min_len().max(1) as f64));
			}
		},
		Ty::Option(t) | Ty::Array(t, _) => sub(t, &mut alpha, &mut levels),
		Ty::Result(a, b) => {
			sub(a, &mut alpha, &mut levels);
			sub(b, &mut alpha, &mut levels);
		},
		Ty::Tuple(ts) => ts.iter().for_each(|t| sub(t, &mut alpha, &mut levels)),
		Ty::Struct { fields, .. } => fields.iter().filter_map(|f| f.wire.as_ref()).for_each(|t| sub(t, &mut alpha, &mut levels)),
		Ty::Enum { variants, .. } => variants.iter().for_each(|v| v.fields.iter().filter_map(|f| f.wire.as_ref()).for_each(|t| sub(t, &mut alpha, &mut levels))),
		Ty::Named(n) => {
			let (a, l) = mem_shape(resolve(n), depth + 4);
			alpha = alpha.max(a);
			levels = levels.max(l + 2);
		},
		_ => {},
	}
	(alpha, levels)
}

pub fn c09(ctx: &Ctx) {
	let mut rep = Report::new("C09");
	let nvals = ctx.budget(100, 6000);
	let mut worst_ratio_milli = 0u64;
	for ops in ctx.my_types() {
		if ops.dec.is_none() || ops.has_tag("recursive") {
			continue;
		}
		let (alpha, levels) = mem_shape(&ops.ty, 0);
		if levels == 0 {
			continue;
		}
		note_types(&mut rep, ops);
		let mut rng = ctx.rng_for(ops.name);
		// absolute allowance: a fixed preallocation window per nesting level + the value itself
		let beta = levels as f64 * (16384.0 + 65536.0) + 8.0 * ops.mem_size as f64 + 8192.0;
		for vi in 0..nvals {
			let case = gen_case(ops, &mut rng, true);
			if case.marks.is_empty() {
				continue;
			}
			// honest decode: the absolute bound must hold with headroom (calibration of oracle B)
			for via in [Via::Slice, Via::Unknown, Via::Shared, Via::Zst] {
				rep.begin(|| format!("C09 {} honest {:?} {}", ops.name, via, hex(&case.bytes)));
				let (st, ok, delivered) = measure(ops, &case.bytes, via);
				rep.evaluations += 1;
				rep.count("honest_decodes");
				let bound = 16.0 * alpha * delivered as f64 + beta;
				let ratio = (st.peak_live as f64 / bound * 1000.0) as u64;
				worst_ratio_milli = worst_ratio_milli.max(ratio);
				if !ok {
					rep.violation(&format!("honest-rejected:{}", ops.name), format!("{}: valid encoding rejected via {:?}", ops.name, via), replay_json("C09", ops, &case.bytes, &[]));
				}
				if st.peak_live as f64 > bound {
					rep.violation(
						&format!("linear-bound:{}", ops.name),
						format!("{}: honest decode of {} bytes via {:?} peaked at {} live bytes, above the bound {:.0}", ops.name, case.bytes.len(), via, st.peak_live, bound),
						replay_json("C09", ops, &case.bytes, &[]),
					);
				}
			}
			// hostile: every count prefix position x payload shapes x inputs, two claimed counts
			for (mi, m) in case.marks.iter().enumerate().take(5) {
				let is_bits = m.what == "bits";
				let empty_elems = m.elem_min_len == 0 && !is_bits;
				let (c1, c2): (u128, u128) = if is_bits {
					(1 << 28, (1 << 29) - 1)
				} else if empty_elems {
					(1 << 14, 1 << 18)
				} else {
					(1 << 31, u32::MAX as u128)
				};
				let tail = &case.bytes[m.pos + m.len..];
				let mut payloads: Vec<(&str, Vec<u8>)> = vec![("none", Vec::new()), ("original", tail.to_vec())];
				if vi % 3 == 0 {
					let mut long = Vec::with_capacity(70_000);
					let unit: Vec<u8> = if tail.is_empty() { vec![0x04, 0x01] } else { tail.to_vec() };
					while long.len() < if vi % 6 == 0 { 65_536 } else { 16_383 } {
						long.extend_from_slice(&unit);
					}
					payloads.push(("long", long));
				}
				for (pname, payload) in &payloads {
					for via in [Via::Slice, Via::Unknown, Via::Shared, Via::Zst] {
						let build = |c: u128| {
							let mut b = case.bytes[..m.pos].to_vec();
							compact_encode(c, &mut b);
							b.extend_from_slice(payload);
							b
						};
						let (b1, b2) = (build(c1), build(c2));
						rep.begin(|| format!("C09 {} hostile {:?} mark {mi} payload {pname} {}", ops.name, via, hex(&b2[..b2.len().min(64)])));
						let (s1, ok1, d1) = measure(ops, &b1, via);
						let (s2, ok2, d2) = measure(ops, &b2, via);
						rep.evaluations += 2;
						rep.count("hostile_pairs");
						rep.count(&format!("hostile:{}", m.what));
						rep.count(&format!("via:{:?}", via));
						rep.nontrivial(hash64(&(ops.name, &b2, via as u8)));
						rep.max("max:largest_single_request_seen", s2.max_request as u64);
						rep.max("max:peak_live_seen", s2.peak_live as u64);
						if !ok1 && !ok2 {
							rep.count("hostile_rejected");
						}
						let wit = || replay_json("C09", ops, &b2[..b2.len().min(4096)], &[("via", jstr(&format!("{:?}", via))), ("claimed", c2.to_string()), ("payload", jstr(pname)), ("mark", mi.to_string())]);
						// oracle A: memory must not depend on the claimed count
						let scaling = s2.peak_live > s1.peak_live + 4096 || s2.max_request > s1.max_request + 4096 || s2.refused > 0 || s1.refused > 0;
						if scaling {
							let sig = if empty_elems { "count-scaling:empty-encoding-elements".to_string() } else { format!("count-scaling:{}", ops.name) };
							rep.violation(
								&sig,
								format!(
									"{}: memory follows the claimed count at count prefix #{mi} ({}) via {:?}, payload '{pname}': claiming {c1} -> peak {} B / largest request {} B; claiming {c2} -> peak {} B / largest request {} B (input {} bytes, refused requests {})",
									ops.name, m.what, via, s1.peak_live, s1.max_request, s2.peak_live, s2.max_request, b2.len(), s2.refused
								),
								wit(),
							);
						}
						// oracle B: absolute linear bound in the bytes actually delivered
						for (st, dl) in [(s1, d1), (s2, d2)] {
							let bound = 16.0 * alpha * dl as f64 + beta;
							if st.peak_live as f64 > bound && !empty_elems {
								rep.violation(
									&format!("linear-bound:{}", ops.name),
									format!("{}: hostile input ({} bytes delivered) via {:?} peaked at {} live bytes, above the bound {:.0}", ops.name, dl, via, st.peak_live, bound),
									wit(),
								);
							}
							if !empty_elems {
								worst_ratio_milli = worst_ratio_milli.max((st.peak_live as f64 / bound * 1000.0) as u64);
							}
						}
						// MODERATE counts (below any "obviously hostile" threshold) with nothing behind them:
						// each level may reserve its fixed window, not count * element size
						if payload.is_empty() && !empty_elems && !is_bits {
							for c in [63u128, 1000, 16_384] {
								let b4 = build(c);
								rep.begin(|| format!("C09 {} moderate-count {c} {:?} mark {mi}", ops.name, via));
								let (s4, _ok4, d4) = measure(ops, &b4, via);
								rep.evaluations += 1;
								rep.count("moderate_count_cases");
								let bound = 16.0 * alpha * d4 as f64 + beta;
								worst_ratio_milli = worst_ratio_milli.max((s4.peak_live as f64 / bound * 1000.0) as u64);
								if s4.peak_live as f64 > bound {
									rep.violation(
										&format!("linear-bound:{}", ops.name),
										format!("{}: count prefix #{mi} claiming {c} elements with no payload via {:?}: peak {} live bytes (largest request {}) for {} delivered bytes, above the bound {:.0}", ops.name, via, s4.peak_live, s4.max_request, d4, bound),
										replay_json("C09", ops, &b4, &[("via", jstr(&format!("{:?}", via))), ("claimed", c.to_string())]),
									);
								}
							}
						}
						// a PLAUSIBLE count: exactly as many elements as payload bytes follow. Nothing about
						// such a count justifies reserving more than the delivered bytes can fill.
						if !payload.is_empty() && !empty_elems && !is_bits {
							let b3 = build(payload.len() as u128);
							rep.begin(|| format!("C09 {} plausible-count {:?} mark {mi} payload {pname}", ops.name, via));
							let (s3, _ok3, d3) = measure(ops, &b3, via);
							rep.evaluations += 1;
							rep.count("plausible_count_cases");
							let bound = 16.0 * alpha * d3 as f64 + beta;
							worst_ratio_milli = worst_ratio_milli.max((s3.peak_live as f64 / bound * 1000.0) as u64);
							if s3.peak_live as f64 > bound {
								rep.violation(
									&format!("linear-bound:{}", ops.name),
									format!("{}: count prefix #{mi} claiming {} elements with {} payload bytes present via {:?}: peak {} live bytes for {} delivered bytes, above the bound {:.0} (largest request {})", ops.name, payload.len(), payload.len(), via, s3.peak_live, d3, bound, s3.max_request),
									replay_json("C09", ops, &b3[..b3.len().min(4096)], &[("via", jstr(&format!("{:?}", via))), ("claimed", payload.len().to_string())]),
								);
							}
						}
						if rep.want_sample() {
							rep.sample(jobj(&[
								("type", jstr(ops.name)),
								("input", jstr(&hex(&b2[..b2.len().min(40)]))),
								("input_len", b2.len().to_string()),
								("via", jstr(&format!("{:?}", via))),
								("claimed_counts", jstr(&format!("{c1} / {c2}"))),
								("peak_live", jstr(&format!("{} / {}", s1.peak_live, s2.peak_live))),
								("largest_request", jstr(&format!("{} / {}", s1.max_request, s2.max_request))),
							]));
						}
					}
				}
			}
		}
	}
	// nesting: every level of a recursive type claims a plausible count; each level is allowed its
	// fixed preallocation window, no more
	if ctx.shard == 1 % ctx.nshards {
		if let Some(ops) = ctx.universe.iter().find(|o| o.name == "Tree") {
			for levels in [20usize, 200] {
				for claimed in [600u128, 10_000, 16_383] {
					let mut b = Vec::new();
					for _ in 0..levels {
						b.push(0u8);
						compact_encode(claimed, &mut b);
					}
					b.push(0);
					b.push(0);
					b.resize(b.len() + 65_536, 0);
					for via in [Via::Slice, Via::Unknown, Via::Shared, Via::Zst] {
						rep.begin(|| format!("C09 Tree nested {levels} levels claiming {claimed} via {:?}", via));
						let (st, _ok, delivered) = measure(ops, &b, via);
						rep.evaluations += 1;
						rep.count("nested_plausible_cases");
						rep.nontrivial(hash64(&("nested", levels, claimed as u64, via as u8)));
						let bound = levels as f64 * (16384.0 + 8192.0) + 64.0 * delivered as f64 + 1_048_576.0;
						rep.max("max:nested_peak_seen", st.peak_live as u64);
						if st.peak_live as f64 > bound {
							rep.violation(
								"linear-bound:nested:Tree",
								format!("Tree nested {levels} levels, each level claiming {claimed} children, via {:?}: peak {} live bytes for {delivered} delivered bytes; allowed {levels} preallocation windows + linear part = {:.0}", via, st.peak_live, bound),
								jobj(&[("property", jstr("C09")), ("type", jstr("Tree")), ("levels", levels.to_string()), ("claimed", claimed.to_string()), ("via", jstr(&format!("{:?}", via)))]),
							);
						}
					}
				}
			}
		}
	}
	// calibration: Vec<u8> from an unknown-length input with no payload reserves one fixed window
	if ctx.shard == 0 {
		if let Some(ops) = ctx.universe.iter().find(|o| o.name == "Vec<u8>") {
			let mut reqs = Vec::new();
			for c in [1u128 << 20, 1 << 31, u32::MAX as u128] {
				let mut b = Vec::new();
				compact_encode(c, &mut b);
				let (st, _, _) = measure(ops, &b, Via::Unknown);
				reqs.push(st.max_request);
			}
			rep.count("calibration_runs");
			rep.max("max:preallocation_window_observed", reqs[0] as u64);
			if reqs.iter().any(|r| *r != reqs[0]) {
				rep.violation("count-scaling:Vec<u8>", format!("preallocation for Vec<u8> from an unknown-length input depends on the count: {:?}", reqs), "{}".into());
			}
		}
	}
	rep.max("max:worst_peak_over_bound_permille", worst_ratio_milli);
	finish(ctx, &rep);
	if std::env::var("C09_DEBUG").is_ok() {
		eprintln!("worst ratio permille {worst_ratio_milli}");
	}
}

// ------------------------------------------------------------------------------------------
// C11

fn depth_types(ctx: &Ctx) -> Vec<&TypeOps> {
	ctx.my_types().into_iter().filter(|o| o.dec.is_some()).collect()
}

pub fn c11(ctx: &Ctx) {
	let mut rep = Report::new("C11");
	if ctx.mode == "deep" {
		c11_deep(ctx, &mut rep);
		finish(ctx, &rep);
		return;
	}
	let n = ctx.budget(1500, 120_000);
	for ops in depth_types(ctx) {
		let d = ops.d();
		let mut rng = ctx.rng_for(ops.name);
		note_types(&mut rep, ops);
		let mut prev = Vec::new();
		for i in 0..n {
			let case = gen_case(ops, &mut rng, i % 5 != 0);
			let (hi, lo) = depths(&ops.ty, &case.val);
			let enc = match catch(|| (ops.enc_plain)(&case.val)) {
				Ok(e) => e,
				Err(_) => continue,
			};
			rep.begin(|| format!("C11 {} sweep {}", ops.name, hex(&enc)));
			let (base_v, base_used) = match catch(|| (d.slice)(&enc)) {
				Ok((Some(v), u)) => (v, u),
				_ => continue, // C02's business
			};
			if hi >= 2 {
				rep.nontrivial(key(ops, &enc));
			}
			rep.max("max:depth_hi_seen", hi as u64);
			let wit = |l: u32| replay_json("C11", ops, &enc, &[("limit", l.to_string()), ("depth_hi", hi.to_string()), ("depth_lo", lo.to_string())]);
			let mut threshold: Option<u32> = None;
			let mut prev_ok = false;
			for l in 0..=hi + 2 {
				rep.evaluations += 1;
				rep.count("limit_sweeps");
				// native entry point
				let r = catch(|| ((d.depth_slice)(l, &enc), (d.all_depth)(l, &enc)));
				let ((v, used), allv) = match r {
					Ok(x) => x,
					Err(p) => {
						rep.violation(&format!("depth-panic:{}", ops.name), format!("{}: decode_with_depth_limit({l}) panicked: {p}", ops.name), wit(l));
						continue;
					},
				};
				// through wrapper layers between limiter and decoder, observed by a spy
				let layers: &[Layer] = match l % 3 {
					0 => &[Layer::Depth(0), Layer::Counted],
					1 => &[Layer::Depth(0), Layer::Mem(usize::MAX), Layer::Counted],
					_ => &[Layer::Counted, Layer::Depth(0)],
				};
				let layers: Vec<Layer> = layers.iter().map(|x| if let Layer::Depth(_) = x { Layer::Depth(l) } else { *x }).collect();
				let mut spy = SpyInput::new(&enc);
				let mut via_stack: Option<Val> = None;
				let rs = catch(|| {
					let mut cb = |i: &mut dyn Input| -> Result<(), Error> {
						via_stack = (d.dynamic)(i);
						Ok(())
					};
					let _ = with_stack(&mut spy, &layers, &mut cb);
				});
				if rs.is_err() {
					rep.violation(&format!("depth-panic:{}", ops.name), format!("{}: depth-limited decode through wrappers panicked at limit {l}", ops.name), wit(l));
				}
				let ok = v.is_some();
				if ok {
					rep.count("limited_ok");
					if !same_val(ops, &base_v, v.as_ref().unwrap()) || used != base_used {
						rep.violation(&format!("depth-transparency:{}", ops.name), format!("{}: limit {l} returned {} consuming {used}, unlimited decoding {} consuming {base_used}", ops.name, show_val(v.as_ref().unwrap()), show_val(&base_v)), wit(l));
					}
					if threshold.is_none() {
						threshold = Some(l);
					}
					// spy: balanced, never negative, siblings do not accumulate
					if via_stack.is_some() && (spy.depth != 0 || spy.min_depth < 0 || spy.max_depth > hi as i64) {
						rep.violation(&format!("depth-trace:{}", ops.name), format!("{}: descend/ascend trace unbalanced at limit {l}: final depth {}, min {}, max {} (container depth {hi})", ops.name, spy.depth, spy.min_depth, spy.max_depth), wit(l));
					}
				} else {
					rep.count("limited_err");
				}
				if via_stack.is_some() != ok || (ok && via_stack.as_ref() != v.as_ref()) {
					rep.violation(&format!("depth-wrapper-layers:{}", ops.name), format!("{}: limit {l}: native entry point {} but through wrapper layers {:?} {}", ops.name, if ok { "succeeds" } else { "fails" }, layers, if via_stack.is_some() { "succeeds" } else { "fails" }), wit(l));
				}
				if prev_ok && !ok {
					rep.violation(&format!("depth-monotone:{}", ops.name), format!("{}: succeeds at limit {} but fails at {l}", ops.name, l - 1), wit(l));
				}
				if l >= hi && !ok {
					rep.violation(&format!("depth-too-strict:{}", ops.name), format!("{}: fails at limit {l} although the container nesting depth of {} is {hi}", ops.name, show_val(&case.val)), wit(l));
				}
				if l < lo && ok {
					rep.violation(&format!("depth-too-lax:{}", ops.name), format!("{}: succeeds at limit {l} although the value recurses through {lo} container levels: {}", ops.name, show_val(&case.val)), wit(l));
				}
				// consume-everything variant: same, and the encoding has no trailing bytes
				if allv.is_some() != ok {
					rep.violation(&format!("depth-decode-all:{}", ops.name), format!("{}: decode_all_with_depth_limit({l}) {} but decode_with_depth_limit {}", ops.name, if allv.is_some() { "succeeds" } else { "fails" }, if ok { "succeeds" } else { "fails" }), wit(l));
				}
				prev_ok = ok;
			}
			if let Some(t) = threshold {
				rep.count(&format!("threshold_minus_lo:{}", t.saturating_sub(lo)));
			}
			// trailing bytes: the consume-everything variant must reject
			{
				let mut ext = enc.clone();
				ext.push(0);
				rep.evaluations += 1;
				match catch(|| (d.all_depth)(hi + 1, &ext)) {
					Ok(None) => rep.count("trailing_rejected"),
					Ok(Some(_)) => rep.violation(&format!("depth-decode-all-trailing:{}", ops.name), format!("{}: decode_all_with_depth_limit accepted input with a trailing byte", ops.name), wit(hi + 1)),
					Err(_) => {},
				}
			}
			// hostile strings: limited result is the unlimited result or an error
			if i % 4 == 0 {
				for (b, origin) in hostile_strings(ops, &case, &prev, &mut rng, 3, 1) {
					let unl = match catch(|| (d.slice)(&b)) {
						Ok(x) => x,
						Err(_) => continue,
					};
					for l in [0u32, 1, 2, 3, u32::MAX] {
						rep.evaluations += 1;
						rep.count("hostile_limited");
						match catch(|| (d.depth_slice)(l, &b)) {
							Ok((Some(v), used)) =>
								if unl.0.as_ref() != Some(&v) || used != unl.1 {
									rep.violation(&format!("depth-transparency:{}", ops.name), format!("{}: on {} ({origin}) limit {l} returned {} but unlimited decoding returned {:?}", ops.name, hex(&b[..b.len().min(48)]), show_val(&v), unl.0.as_ref().map(show_val)), replay_json("C11", ops, &b, &[("limit", l.to_string())]));
								},
							Ok((None, _)) =>
								if l == u32::MAX && unl.0.is_some() {
									rep.violation(&format!("depth-too-strict:{}", ops.name), format!("{}: limit u32::MAX fails on {} which decodes without limit", ops.name, hex(&b[..b.len().min(48)])), replay_json("C11", ops, &b, &[("limit", l.to_string())]));
								},
							Err(p) => rep.violation(&format!("depth-panic:{}", ops.name), format!("{}: limited decode panicked: {p}", ops.name), replay_json("C11", ops, &b, &[("limit", l.to_string())])),
						}
					}
				}
			}
			if rep.want_sample() && hi >= 2 {
				rep.sample(jobj(&[("type", jstr(ops.name)), ("bytes", jstr(&hex(&enc[..enc.len().min(40)]))), ("depth_hi", hi.to_string()), ("depth_lo", lo.to_string()), ("threshold", jstr(&format!("{:?}", threshold)))]));
			}
			prev = case.bytes;
		}
	}
	finish(ctx, &rep);
}

/// Adversarially deep input for recursive types on a small fixed-size stack (release build, run
/// in a child of its own so that a stack overflow is attributable).
fn c11_deep(ctx: &Ctx, rep: &mut Report) {
	let names = ["List", "Tree", "MapRec", "Box<List>", "Rc<Tree>", "EFields", "WList"];
	let depths: &[usize] = if ctx.tier == Tier::Thorough { &[1_000, 100_000, 1_000_000] } else { &[1_000, 100_000] };
	for (ti, name) in names.iter().enumerate() {
		if ti % ctx.nshards != ctx.shard {
			continue;
		}
		let Some(ops) = ctx.universe.iter().find(|o| o.name == *name) else { continue };
		let ops = ops.clone();
		for &dp in depths {
			let mut b = Vec::with_capacity(dp * 3 + 8);
			match *name {
				"List" | "Box<List>" | "WList" => {
					for i in 0..dp {
						b.push(1);
						b.push(i as u8);
					}
					b.push(0);
				},
				"Tree" | "Rc<Tree>" => {
					for i in 0..dp {
						b.push(i as u8);
						b.push(0x04);
					}
					b.push(7);
					b.push(0);
				},
				"MapRec" => {
					for i in 0..dp {
						b.push(0x04);
						b.push(i as u8);
					}
					b.push(0);
				},
				_ => {
					// EFields::Named { x: [], y: Some(Box<..>) } nested, innermost Unit
					for _ in 0..dp {
						b.push(2);
						b.push(0);
						b.push(1);
					}
					b.push(0);
				},
			}
			for limit in [8u32, 64, 256, 2000] {
				if limit as usize >= dp && dp > 1000 {
					continue;
				}
				rep.evaluations += 1;
				rep.count("deep_cases");
				rep.nontrivial(hash64(&(name, dp, limit)));
				rep.begin(|| format!("C11 deep {name} depth {dp} limit {limit}"));
				let ops2 = ops.clone();
				let bytes = b.clone();
				// fixed 2 MiB stack
				let h = std::thread::Builder::new().stack_size(2 << 20).spawn(move || {
					let (v, _) = (ops2.d().depth_slice)(limit, &bytes);
					let ok = v.is_some();
					drop(v);
					ok
				});
				let ok = h.expect("spawn").join();
				let expect_ok = (limit as usize) > dp + 2;
				match ok {
					Ok(ok) if ok == expect_ok => rep.count(if ok { "deep_ok" } else { "deep_rejected" }),
					Ok(ok) => rep.violation(
						&format!("deep-outcome:{name}"),
						format!("{name} nested {dp} deep with limit {limit}: decode {} but should {}", if ok { "succeeded" } else { "failed" }, if expect_ok { "succeed" } else { "fail" }),
						jobj(&[("property", jstr("C11")), ("type", jstr(name)), ("nesting", dp.to_string()), ("limit", limit.to_string())]),
					),
					Err(_) => rep.violation(&format!("deep-panic:{name}"), format!("{name} nested {dp} deep with limit {limit}: decoding thread panicked"), "{}".into()),
				}
				if rep.samples.len() < 4 {
					rep.sample(jobj(&[("type", jstr(name)), ("nesting", dp.to_string()), ("limit", limit.to_string()), ("stack", jstr("2 MiB")), ("input_len", b.len().to_string())]));
				}
			}
		}
	}
}

// ------------------------------------------------------------------------------------------
// C12

fn used_mem_of(ops: &TypeOps, b: &[u8], layers_above: bool) -> (Option<Val>, usize, u128, u64) {
	let d = ops.d();
	let mut spy = SpyInput::new(b);
	let (v, used);
	{
		let mut dy = Dyn(&mut spy);
		let mut m = MemTrackingInput::new(&mut dy, usize::MAX);
		if layers_above {
			let mut dm = Dyn(&mut m);
			let mut c = parity_scale_codec::CountedInput::new(&mut dm);
			v = (d.dynamic)(&mut c);
		} else {
			v = (d.dynamic)(&mut m);
		}
		used = m.used_mem();
	}
	(v, used, spy.alloc_sum, spy.alloc_calls)
}

pub fn c12(ctx: &Ctx) {
	let mut rep = Report::new("C12");
	let n = ctx.budget(600, 75_000);
	for ops in ctx.my_types() {
		let Some(mem_slice) = ops.mem_slice else { continue };
		let d = ops.d();
		let mut rng: Rng = ctx.rng_for(ops.name);
		note_types(&mut rep, ops);
		let mut prev = Vec::new();
		for i in 0..n {
			let case = gen_case(ops, &mut rng, i % 4 != 0);
			let enc = match catch(|| (ops.enc_plain)(&case.val)) {
				Ok(e) => e,
				Err(_) => continue,
			};
			rep.begin(|| format!("C12 {} {}", ops.name, hex(&enc)));
			let (base_v, base_used) = match catch(|| (d.slice)(&enc)) {
				Ok((Some(v), u)) => (v, u),
				_ => continue,
			};
			let (tv, u, hook_sum, hook_calls) = match catch(|| used_mem_of(ops, &enc, i % 2 == 1)) {
				Ok(x) => x,
				Err(p) => {
					rep.violation(&format!("mem-panic:{}", ops.name), format!("{}: tracked decode panicked: {p}", ops.name), replay_json("C12", ops, &enc, &[]));
					continue;
				},
			};
			rep.evaluations += 1;
			rep.add("hook_calls", hook_calls);
			let heap = (ops.heap)(&case.val);
			let wit = |l: usize| replay_json("C12", ops, &enc, &[("limit", l.to_string()), ("tracked_usage", u.to_string())]);
			if tv.as_ref() != Some(&base_v) {
				rep.violation(&format!("mem-transparency:{}", ops.name), format!("{}: decoding through MemTrackingInput(MAX) returned {:?}, plain decoding {}", ops.name, tv.as_ref().map(show_val), show_val(&base_v)), wit(usize::MAX));
			}
			if hook_sum.min(usize::MAX as u128) != u as u128 {
				rep.violation(&format!("mem-conservation:{}", ops.name), format!("{}: used_mem() = {u} but the announced allocations sum to {hook_sum}", ops.name), wit(usize::MAX));
			}
			if u > 0 {
				rep.nontrivial(key(ops, &enc));
				rep.count("values_with_positive_usage");
			} else {
				rep.count("values_with_zero_usage");
			}
			// meaningfulness
			if heap.objects == 0 && u != 0 {
				rep.violation(&format!("mem-phantom-usage:{}", ops.name), format!("{}: tracked usage {u} for a value holding no heap data: {}", ops.name, show_val(&case.val)), wit(0));
			}
			let need = heap.exact + heap.tree / 2;
			if u < need {
				rep.violation(
					&format!("mem-undercount:{}", ops.name),
					format!("{}: tracked usage {u} is below the decoded data held on the heap ({} exact + {} in trees) for {}", ops.name, heap.exact, heap.tree, show_val(&case.val)),
					wit(u),
				);
			}
			if need > 0 {
				rep.max("max:usage_over_payload_permille", (u as u128 * 1000 / need as u128) as u64);
			}
			// exact threshold
			let limits: Vec<usize> = if u <= 4096 {
				(0..=u + 1).collect()
			} else {
				vec![0, 1, u / 2, u - 1, u, u + 1, u.saturating_mul(2), usize::MAX]
			};
			for l in limits {
				rep.evaluations += 1;
				rep.count("limit_sweeps");
				let r = catch(|| mem_slice(&enc, l));
				match r {
					Err(p) => rep.violation(&format!("mem-panic:{}", ops.name), format!("{}: decode_with_mem_limit({l}) panicked: {p}", ops.name), wit(l)),
					Ok((Some(v), used)) => {
						if !same_val(ops, &base_v, &v) || used != base_used {
							rep.violation(&format!("mem-transparency:{}", ops.name), format!("{}: limit {l} returned a different result than unlimited decoding", ops.name), wit(l));
						}
						if l <= u && u > 0 {
							rep.violation(&format!("mem-limit-not-enforced:{}", ops.name), format!("{}: succeeds with limit {l} although the tracked usage is {u} ({})", ops.name, show_val(&case.val)), wit(l));
						}
						rep.count("limited_ok");
					},
					Ok((None, _)) => {
						if l > u {
							rep.violation(&format!("mem-limit-too-strict:{}", ops.name), format!("{}: fails with limit {l} although the tracked usage is only {u}", ops.name), wit(l));
						}
						rep.count("limited_err");
					},
				}
			}
			// the tracker under / above other wrappers gives the same threshold
			if u > 0 && i % 3 == 0 {
				for (layers, at) in [
					(vec![Layer::Counted, Layer::Mem(u)], false),
					(vec![Layer::Mem(u + 1), Layer::Counted], true),
					(vec![Layer::Depth(u32::MAX), Layer::Mem(u), Layer::Counted], false),
					(vec![Layer::Mem(u + 1), Layer::Depth(u32::MAX)], true),
					// the tracker at the bottom: every wrapper above it must pass the hook down
					(vec![Layer::Mem(u), Layer::Counted], false),
					(vec![Layer::Mem(u), Layer::Depth(u32::MAX)], false),
					(vec![Layer::Mem(u), Layer::Depth(u32::MAX), Layer::Counted], false),
					(vec![Layer::Mem(u), Layer::Counted, Layer::Depth(u32::MAX)], false),
				] {
					rep.evaluations += 1;
					rep.count("stacked_limits");
					let mut spy = SpyInput::new(&enc);
					let mut got: Option<Val> = None;
					let _ = catch(|| {
						let mut cb = |inp: &mut dyn Input| -> Result<(), Error> {
							got = (d.dynamic)(inp);
							Ok(())
						};
						let _ = with_stack(&mut spy, &layers, &mut cb);
					});
					if got.is_some() != at {
						rep.violation(&format!("mem-wrapper-layers:{}", ops.name), format!("{}: through {:?} decode {} (tracked usage {u})", ops.name, layers, if got.is_some() { "succeeds" } else { "fails" }), wit(u));
					}
				}
			}
			// hostile strings
			if i % 4 == 0 {
				for (b, origin) in hostile_strings(ops, &case, &prev, &mut rng, 3, 1) {
					let unl = match catch(|| (d.slice)(&b)) {
						Ok(x) => x,
						Err(_) => continue,
					};
					for l in [0usize, 1, 64, 4096, usize::MAX] {
						rep.evaluations += 1;
						rep.count("hostile_limited");
						match catch(|| mem_slice(&b, l)) {
							Ok((Some(v), used)) =>
								if unl.0.as_ref() != Some(&v) || used != unl.1 {
									rep.violation(&format!("mem-transparency:{}", ops.name), format!("{}: on {} ({origin}) limit {l} returned {} but unlimited decoding {:?}", ops.name, hex(&b[..b.len().min(48)]), show_val(&v), unl.0.as_ref().map(show_val)), replay_json("C12", ops, &b, &[("limit", l.to_string())]));
								},
							Ok((None, _)) =>
								if l == usize::MAX && unl.0.is_some() {
									// usize::MAX can only fail through saturation, which no real input reaches
									rep.violation(&format!("mem-limit-too-strict:{}", ops.name), format!("{}: limit usize::MAX fails on an input that decodes without limit", ops.name), replay_json("C12", ops, &b, &[]));
								},
							Err(p) => rep.violation(&format!("mem-panic:{}", ops.name), format!("{}: limited decode panicked: {p}", ops.name), replay_json("C12", ops, &b, &[])),
						}
					}
				}
			}
			if rep.want_sample() && u > 0 {
				rep.sample(jobj(&[("type", jstr(ops.name)), ("bytes", jstr(&hex(&enc[..enc.len().min(40)]))), ("tracked_usage", u.to_string()), ("payload_exact", heap.exact.to_string()), ("payload_tree", heap.tree.to_string()), ("limits_swept", (if u <= 4096 { u + 2 } else { 8 }).to_string())]));
			}
			prev = case.bytes;
		}
	}
	// saturation of the tracker itself (public hook, sizes near usize::MAX)
	if ctx.shard == 0 {
		let r = catch(|| {
			let mut base: &[u8] = &[];
			let mut m = MemTrackingInput::new(&mut base, usize::MAX);
			let a = m.on_before_alloc_mem(usize::MAX - 5).is_ok();
			let b = m.on_before_alloc_mem(3).is_ok();
			let c = m.on_before_alloc_mem(10).is_ok();
			let used = m.used_mem();
			let d2 = m.on_before_alloc_mem(1).is_ok();
			(a, b, c, used, d2, m.used_mem())
		});
		rep.evaluations += 1;
		rep.count("saturation_cases");
		match r {
			Ok((true, true, false, usize::MAX, false, usize::MAX)) => {},
			other => rep.violation("mem-saturation", format!("tracker near usize::MAX: {:?} (expected Ok, Ok, Err, MAX, Err, MAX)", other), "{}".into()),
		}
	}
	finish(ctx, &rep);
}

//! Property workloads + monitors. One binary, one sub-command per property; the driver
//! (`/verif/check`) runs it as sharded child processes and merges the per-shard reports.

mod c04;
mod c10;
mod common;
mod core_props;
mod hist_props;
mod io_props;
mod mem_props;

use common::{Ctx, Tier};

#[global_allocator]
static GLOBAL: monitor::alloc::CountingAlloc = monitor::alloc::CountingAlloc;

fn arg(args: &[String], name: &str) -> Option<String> {
	args.iter().position(|a| a == name).and_then(|i| args.get(i + 1).cloned())
}

fn main() {
	let args: Vec<String> = std::env::args().collect();
	let prop = arg(&args, "--prop").expect("--prop");
	let tier = match arg(&args, "--tier").as_deref() {
		Some("thorough") => Tier::Thorough,
		_ => Tier::Quick,
	};
	let ctx = Ctx {
		prop: prop.clone(),
		tier,
		slow: arg(&args, "--slow").map(|s| s.parse().unwrap()).unwrap_or(1),
		seed: arg(&args, "--seed").map(|s| s.parse().unwrap()).unwrap_or(1),
		shard: arg(&args, "--shard").map(|s| s.parse().unwrap()).unwrap_or(0),
		nshards: arg(&args, "--nshards").map(|s| s.parse().unwrap()).unwrap_or(1),
		out: arg(&args, "--out").unwrap_or_else(|| "/dev/stdout".into()),
		universe: universe::build(),
		only_type: arg(&args, "--type"),
		replay: arg(&args, "--replay"),
		mode: arg(&args, "--mode").unwrap_or_default(),
		values: arg(&args, "--values").map(|s| s.parse().unwrap()),
	};
	// expected panics (caught by the monitors) should not flood stderr
	if std::env::var("VERIF_VERBOSE_PANICS").is_err() {
		std::panic::set_hook(Box::new(|_| {}));
	}
	match prop.as_str() {
		"noop" => {},
		"fuzz-seeds" => {
			// seed corpus for the coverage-guided stage: (type index, little endian) ++ a valid encoding,
			// with the type numbering used by harness/fuzz/fuzz_targets/decode_diff.rs
			let dir = ctx.out.clone();
			std::fs::create_dir_all(&dir).expect("corpus dir");
			let types: Vec<&monitor::ops::TypeOps> = ctx.universe.iter().filter(|o| o.dec.is_some() && !o.has_tag("huge") && !o.has_tag("zst-elem")).collect();
			let mut n = 0;
			for (i, ops) in types.iter().enumerate() {
				let mut rng = ctx.rng_for(ops.name);
				for k in 0..3 {
					let case = common::gen_case(ops, &mut rng, true);
					if case.bytes.len() > 300 {
						continue;
					}
					let mut b = (i as u16).to_le_bytes().to_vec();
					b.extend_from_slice(&case.bytes);
					std::fs::write(format!("{dir}/seed-{i}-{k}"), b).expect("write seed");
					n += 1;
				}
			}
			println!("{n} seeds for {} types", types.len());
		},
		"replay" => {
			// re-judge one witness (type + bytes) with the byte-string, wire-format and round-trip monitors
			let name = ctx.only_type.clone().expect("--type");
			let bytes = monitor::model::unhex(&arg(&args, "--bytes").unwrap_or_default());
			let Some(ops) = ctx.universe.iter().find(|o| o.name == name) else {
				eprintln!("type {name} is not part of the static universe");
				std::process::exit(3);
			};
			let mut rep = monitor::report::Report::new("replay");
			println!("type  : {}", ops.name);
			println!("bytes : {}", monitor::model::hex(&bytes));
			let model = monitor::model::spec_decode(&ops.ty, &bytes);
			println!("model : {:?}", model.as_ref().map(|(v, n)| (monitor::model::show_val(v), *n)));
			if let Some(d) = &ops.dec {
				let real = monitor::report::catch(|| (d.slice)(&bytes));
				println!("crate : {:?}", real.as_ref().map(|(v, n)| (v.as_ref().map(monitor::model::show_val), *n)));
				core_props::c03_bytes(ops, &bytes, "replay", &mut rep);
			}
			if let Ok((v, _)) = &model {
				let val = (ops.canon)(v);
				let (spec, marks) = monitor::model::spec_encode_marks(&ops.ty, &val);
				let case = common::Case { val, bytes: spec, marks };
				core_props::c01_value_pub(ops, &case, &mut rep);
				if ops.dec.is_some() {
					core_props::c02_value(ops, &case, &[0xAB], &mut rep, "replay");
				}
			}
			println!("violations on replay: {}", rep.viol_total);
			for v in &rep.violations {
				println!("  {} :: {}", v.sig, v.msg);
			}
			std::process::exit(if rep.viol_total > 0 { 1 } else { 0 });
		},
		"list-types" => {
			for o in &ctx.universe {
				println!("{}\t{:?}", o.name, o.tags);
			}
		},
		"C01" => core_props::c01(&ctx),
		"C02" => core_props::c02(&ctx),
		"C03" => core_props::c03(&ctx),
		"C04" => c04::c04(&ctx),
		"C05" => {
			// the hand-written derived types of the static universe under the derive monitors
			let mut rep = monitor::report::Report::new("C05");
			let types: Vec<monitor::ops::TypeOps> = ctx.my_types().into_iter().filter(|o| o.has_tag("derived")).cloned().collect();
			let defs: Vec<&str> = types.iter().map(|o| o.name).collect();
			let args = monitor::suite::SuiteArgs { prop: "C05".into(), seed: ctx.seed, values: ctx.budget(2000, 30_000), out: ctx.out.clone() };
			monitor::suite::run_types(&mut rep, &types, &defs, &args);
			common::finish(&ctx, &rep);
		},
		"C06" => hist_props::c06(&ctx),
		"C07" => io_props::c07(&ctx),
		"C08" => io_props::c08(&ctx),
		"C09" => mem_props::c09(&ctx),
		"C10" => c10::c10(&ctx),
		"C11" => mem_props::c11(&ctx),
		"C12" => mem_props::c12(&ctx),
		"C13" => hist_props::c13(&ctx),
		"C14" => io_props::c14(&ctx),
		"C15" => hist_props::c15(&ctx),
		"C16" => hist_props::c16(&ctx),
		"C18" => io_props::c18(&ctx),
		"C19" => io_props::c19(&ctx),
		p => {
			eprintln!("unknown property {p}");
			std::process::exit(3);
		},
	}
}

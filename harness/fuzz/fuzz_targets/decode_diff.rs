//! Coverage-guided workload for property C03 (and the decode half of C07 / C08): libFuzzer
//! chooses a universe type (first two bytes) and a byte string; the monitor is the same reference
//! decoder differential as in the sampled stages. A disagreement, panic or sanitizer report ends
//! the process; the driver turns the saved artifact into a replay file.
#![no_main]

use libfuzzer_sys::fuzz_target;
use monitor::ops::TypeOps;
use monitor::report::Report;
use std::sync::OnceLock;

static UNIVERSE: OnceLock<Vec<TypeOps>> = OnceLock::new();

fn universe() -> &'static Vec<TypeOps> {
	UNIVERSE.get_or_init(|| {
		let filter = std::env::var("VERIF_FUZZ_TAG").ok();
		universe::build()
			.into_iter()
			.filter(|o| o.dec.is_some() && !o.has_tag("huge") && !o.has_tag("zst-elem"))
			.filter(|o| filter.as_ref().map_or(true, |t| o.has_tag(t)))
			.collect()
	})
}

fuzz_target!(|data: &[u8]| {
	if data.len() < 2 {
		return;
	}
	let u = universe();
	let idx = u16::from_le_bytes([data[0], data[1]]) as usize % u.len();
	let ops = &u[idx];
	let b = &data[2..];
	let mut rep = Report::new("C03");
	monitor::diff::model_differential(ops, b, "fuzz", &mut rep, "C03");
	// the other input kinds must agree with the slice on accept/reject (C08's decode half)
	if b.len() % 4 == 0 {
		let d = ops.d();
		let slice = (d.slice)(b);
		let mut spy = monitor::spy::SpyInput::unknown_len(b);
		let unk = (d.dynamic)(&mut spy);
		let shared = (d.bytes)(b.to_vec());
		if slice.0.is_some() != unk.is_some() || slice.0.is_some() != shared.is_some() {
			panic!("VIOL type={} bytes={} :: input kinds disagree: slice {} unknown-length {} shared-buffer {}", ops.name, monitor::model::hex(b), slice.0.is_some(), unk.is_some(), shared.is_some());
		}
	}
	// every accepted input is also a VALUE: its encoding must be the reference encoding, through
	// every entry point (C01 / C07), and decode back to itself (C02)
	if let Ok((v, _)) = monitor::model::spec_decode(&ops.ty, b) {
		let c = (ops.canon)(&v);
		let spec = monitor::model::spec_encode(&ops.ty, &c);
		let r = (ops.enc)(&c, b.len() as u64);
		if let Err(e) = monitor::diff::bytes_conform(ops, &c, &spec, &r.encode) {
			panic!("VIOL type={} bytes={} :: encoding of the decoded value: {e}", ops.name, monitor::model::hex(&spec));
		}
		if r.using != r.encode || r.to_io != r.encode || r.to_dyn.data != r.encode || r.size != r.encode.len() {
			panic!("VIOL type={} bytes={} :: encoding entry points disagree for the decoded value", ops.name, monitor::model::hex(&spec));
		}
		let (back, used) = (ops.d().slice)(&r.encode);
		match back {
			Some(w) if monitor::diff::same_val(ops, &c, &w) && used == r.encode.len() => {},
			other => panic!("VIOL type={} bytes={} :: re-encoding does not decode back: {:?} consuming {used}", ops.name, monitor::model::hex(&r.encode), other.map(|x| monitor::model::show_val(&x))),
		}
	}
	if let Some(v) = rep.violations.first() {
		panic!("VIOL type={} bytes={} :: {}", ops.name, monitor::model::hex(b), v.msg);
	}
});

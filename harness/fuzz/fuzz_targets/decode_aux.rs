//! Coverage-guided workload for the per-input decode properties other than C03: libFuzzer chooses a
//! universe type (first two bytes) and a byte string, and the oracle group selected by
//! `VERIF_FUZZ_PROP` (C08, C11, C12, C14, C18, C19) judges what the real decoders do with it. The
//! rules are the ones of the sampled stages in `props`, restated per input; the reference for each
//! is the plain slice decode of the same bytes (what the property statements compare with).
#![no_main]

use libfuzzer_sys::fuzz_target;
use monitor::model::{depths, hex, show_val, Val};
use monitor::ops::TypeOps;
use monitor::spy::{with_stack, Dyn, Layer, ShortReader, SpyInput};
use parity_scale_codec::{Error, Input, IoReader, MemTrackingInput};
use std::sync::OnceLock;

static UNIVERSE: OnceLock<(Vec<TypeOps>, String)> = OnceLock::new();

fn universe() -> &'static (Vec<TypeOps>, String) {
	UNIVERSE.get_or_init(|| {
		let prop = std::env::var("VERIF_FUZZ_PROP").unwrap_or_else(|_| "C18".into());
		let u = universe::build()
			.into_iter()
			.filter(|o| o.dec.is_some() && !o.has_tag("huge") && !o.has_tag("zst-elem"))
			.collect();
		(u, prop)
	})
}

macro_rules! viol {
	($ops:expr, $b:expr, $($arg:tt)*) => {
		panic!("VIOL type={} bytes={} :: {}", $ops.name, hex($b), format!($($arg)*))
	};
}

fn via(ops: &TypeOps, base: &mut dyn Input, layers: &[Layer]) -> Option<Val> {
	let d = ops.d();
	let mut out = None;
	let mut f = |i: &mut dyn Input| -> Result<(), Error> {
		out = (d.dynamic)(i);
		Ok(())
	};
	let _ = with_stack(base, layers, &mut f);
	out
}

fn logical_len(v: &Val) -> Option<usize> {
	match v {
		Val::Seq(xs) => Some(xs.len()),
		Val::Tuple(xs) => xs.first().and_then(logical_len),
		_ => None,
	}
}

fn c08(ops: &TypeOps, b: &[u8], plain: &(Option<Val>, usize)) {
	let h = b.iter().fold(0xcbf29ce484222325u64, |a, x| (a ^ *x as u64).wrapping_mul(0x100000001b3));
	let words: [&[Layer]; 6] = [
		&[],
		&[Layer::Counted],
		&[Layer::Depth(u32::MAX)],
		&[Layer::Mem(usize::MAX)],
		&[Layer::Counted, Layer::Depth(u32::MAX), Layer::Mem(usize::MAX)],
		&[Layer::Mem(usize::MAX), Layer::Counted, Layer::Depth(u32::MAX)],
	];
	let word = words[(h % 6) as usize];
	let word: &[Layer] = if ops.mem_slice.is_none() && word.iter().any(|l| matches!(l, Layer::Mem(_))) { &[Layer::Counted] } else { word };
	let mut results: Vec<(&str, Option<Val>, usize)> = Vec::new();
	{
		let mut s = SpyInput::new(b);
		let v = via(ops, &mut s, word);
		results.push(("known-length input", v, s.pos));
	}
	{
		let mut s = SpyInput::unknown_len(b);
		let v = via(ops, &mut s, word);
		results.push(("unknown-length input", v, s.pos));
	}
	{
		let mut r = IoReader(std::io::Cursor::new(b));
		let v = via(ops, &mut r, word);
		results.push(("IoReader<Cursor>", v, r.0.position() as usize));
	}
	{
		let mut r = IoReader(ShortReader::new(b, h, 1 + (h % 9) as usize));
		let v = via(ops, &mut r, word);
		results.push(("IoReader<short reads>", v, r.0.pos));
	}
	{
		monitor::ops::zst_input_load(b);
		let v = (ops.d().zst_val)();
		results.push(("zero-sized input type", v, monitor::ops::zst_input_state().0));
	}
	match (ops.d().bytes)(b.to_vec()) {
		Some((v, used)) => results.push(("shared buffer", Some(v), used)),
		None => results.push(("shared buffer", None, 0)),
	}
	for (name, v, used) in results {
		if v.is_some() != plain.0.is_some() {
			viol!(ops, b, "{name} through {word:?} {} but the slice decode {}", if v.is_some() { "succeeds" } else { "fails" }, if plain.0.is_some() { "succeeds" } else { "fails" });
		}
		if let (Some(v), Some(p)) = (&v, &plain.0) {
			if !monitor::diff::same_val(ops, p, v) {
				viol!(ops, b, "{name} through {word:?} decodes {} but the slice decode {}", show_val(v), show_val(p));
			}
			if used != plain.1 {
				viol!(ops, b, "{name} through {word:?} consumes {used} bytes but the slice decode {}", plain.1);
			}
		}
	}
}

fn c11(ops: &TypeOps, b: &[u8], plain: &(Option<Val>, usize)) {
	let d = ops.d();
	// the nesting-depth rules speak about values: only canonical encodings qualify (a map entry that
	// a later duplicate key overwrites is decoded, but not part of the value)
	let dep = plain.0.as_ref().filter(|p| (ops.enc_plain)(p) == b[..plain.1]).map(|v| depths(&ops.ty, v));
	let mut prev_ok = false;
	let mut limits = vec![0u32, 1, 2, 3, 4, 6, 9, u32::MAX];
	if let Some((hi, lo)) = dep {
		limits.extend([lo.saturating_sub(1), lo, hi, hi + 1]);
	}
	limits.sort();
	limits.dedup();
	for l in limits {
		let (v, used) = (d.depth_slice)(l, b);
		let all = (d.all_depth)(l, b);
		let ok = v.is_some();
		if let Some(v) = &v {
			match &plain.0 {
				Some(p) if monitor::diff::same_val(ops, p, v) && used == plain.1 => {},
				other => viol!(ops, b, "limit {l} returned {} consuming {used}, unlimited decoding {:?} consuming {}", show_val(v), other.as_ref().map(show_val), plain.1),
			}
		}
		if prev_ok && !ok {
			viol!(ops, b, "depth-limited decoding succeeds below limit {l} but fails at it");
		}
		if let Some((hi, lo)) = dep {
			if l >= hi && !ok {
				viol!(ops, b, "fails at limit {l} although the container nesting depth of the value is {hi}");
			}
			if l < lo && ok {
				viol!(ops, b, "succeeds at limit {l} although the value recurses through {lo} container levels");
			}
		}
		let want_all = ok && used == b.len();
		if all.is_some() != want_all {
			viol!(ops, b, "decode_all_with_depth_limit({l}) {} but decode_with_depth_limit {} consuming {used} of {}", if all.is_some() { "succeeds" } else { "fails" }, if ok { "succeeds" } else { "fails" }, b.len());
		}
		prev_ok = ok;
	}
}

fn c12(ops: &TypeOps, b: &[u8], plain: &(Option<Val>, usize)) {
	let Some(mem_slice) = ops.mem_slice else { return };
	let d = ops.d();
	// tracked usage of this input
	let mut spy = SpyInput::new(b);
	let (tv, u) = {
		let mut dy = Dyn(&mut spy);
		let mut m = MemTrackingInput::new(&mut dy, usize::MAX);
		let v = (d.dynamic)(&mut m);
		(v, m.used_mem())
	};
	if tv.is_some() != plain.0.is_some() || (tv.is_some() && !monitor::diff::same_val(ops, plain.0.as_ref().unwrap(), tv.as_ref().unwrap())) {
		viol!(ops, b, "decoding through MemTrackingInput(MAX) returned {:?}, plain decoding {:?}", tv.as_ref().map(show_val), plain.0.as_ref().map(show_val));
	}
	if spy.alloc_sum.min(usize::MAX as u128) != u as u128 {
		viol!(ops, b, "used_mem() = {u} but the announced allocations sum to {}", spy.alloc_sum);
	}
	if let Some(p) = plain.0.as_ref().filter(|p| (ops.enc_plain)(p) == b[..plain.1]) {
		let heap = (ops.heap)(p);
		if heap.objects == 0 && u != 0 {
			viol!(ops, b, "tracked usage {u} for a value holding no heap data: {}", show_val(p));
		}
		if u < heap.exact + heap.tree / 2 {
			viol!(ops, b, "tracked usage {u} is below the decoded data held on the heap ({} exact + {} in trees)", heap.exact, heap.tree);
		}
	}
	for l in [0usize, 1, u / 2, u.saturating_sub(1), u, u.saturating_add(1), u.saturating_mul(2), usize::MAX] {
		let (v, used) = mem_slice(b, l);
		match (&v, &plain.0) {
			(Some(v), Some(p)) => {
				if !monitor::diff::same_val(ops, p, v) || used != plain.1 {
					viol!(ops, b, "limit {l} returned a different result than unlimited decoding");
				}
				if l <= u && u > 0 {
					viol!(ops, b, "succeeds with limit {l} although the tracked usage is {u}");
				}
			},
			(Some(v), None) => viol!(ops, b, "limit {l} returned {} but unlimited decoding fails", show_val(v)),
			(None, Some(_)) =>
				if l > u {
					viol!(ops, b, "fails with limit {l} although the tracked usage is only {u}");
				},
			(None, None) => {},
		}
	}
}

fn c14(ops: &TypeOps, b: &[u8], plain: &(Option<Val>, usize)) {
	let d = ops.d();
	let all = (d.all)(b);
	let want = plain.0.is_some() && plain.1 == b.len();
	if all.is_some() != want {
		viol!(ops, b, "decode_all {} but decode {} consuming {} of {} bytes", if all.is_some() { "succeeds" } else { "fails" }, if plain.0.is_some() { "succeeds" } else { "fails" }, plain.1, b.len());
	}
	if let (Some(a), Some(p)) = (&all, &plain.0) {
		if !monitor::diff::same_val(ops, p, a) {
			viol!(ops, b, "decode_all returned {} but decode {}", show_val(a), show_val(p));
		}
	}
	if let Some(p) = plain.0.as_ref().filter(|p| (ops.enc_plain)(p) == b[..plain.1]) {
		// every strict prefix of the consumed part fails; the value followed by itself decodes twice
		let e = &b[..plain.1];
		for cut in [0, e.len() / 2, e.len().saturating_sub(1)] {
			if cut < e.len() {
				if let (Some(v), _) = (d.slice)(&e[..cut]) {
					viol!(ops, b, "the strict prefix of {cut} bytes of an encoding of {} bytes decodes (to {})", e.len(), show_val(&v));
				}
			}
		}
		let mut twice = e.to_vec();
		twice.extend_from_slice(e);
		let mut inp: &[u8] = &twice;
		for k in 0..2 {
			let mut s = SpyInput::new(inp);
			let v = (d.dynamic)(&mut s);
			let used = s.pos;
			match v {
				Some(v) if monitor::diff::same_val(ops, p, &v) && used == e.len() => {},
				other => viol!(ops, b, "copy {k} in a concatenation of two encodings decodes to {:?} consuming {used} (expected {} bytes)", other.as_ref().map(show_val), e.len()),
			}
			inp = &inp[used..];
		}
	}
}

fn c18(ops: &TypeOps, b: &[u8], plain: &(Option<Val>, usize)) {
	let d = ops.d();
	let mut s1 = SpyInput::new(b);
	let mut s2 = SpyInput::new(b);
	let sk = (d.skip)(&mut s1);
	let de = (d.dynamic)(&mut s2).is_some();
	if sk != de {
		viol!(ops, b, "skip {} but decode {}", if sk { "succeeds" } else { "fails" }, if de { "succeeds" } else { "fails" });
	}
	if sk && s1.pos != s2.pos {
		viol!(ops, b, "skip advances the input to {} but decode to {}", s1.pos, s2.pos);
	}
	if sk && s1.depth != s2.depth {
		viol!(ops, b, "skip leaves the input at nesting depth {} but decode at {}", s1.depth, s2.depth);
	}
	if de && s2.max_depth > 0 {
		let lim = s2.max_depth as u32;
		let mut s3 = SpyInput::new(b);
		let mut ok3 = false;
		let mut cb = |i: &mut dyn Input| -> Result<(), Error> {
			ok3 = (d.skip)(i);
			Ok(())
		};
		let _ = with_stack(&mut s3, &[Layer::Depth(lim)], &mut cb);
		if !ok3 {
			viol!(ops, b, "decode needs nesting depth {lim}, but skip fails under that depth limit");
		}
	}
	if let (Some(len_of), Some(p)) = (ops.len_of, &plain.0) {
		if let Some(n) = logical_len(p) {
			// sets / maps with duplicate keys on the wire decode to fewer entries than the prefix
			// says: only canonical encodings have a "true length"
			let canonical = (ops.enc_plain)(p) == b[..plain.1];
			let got = len_of(b);
			if canonical && got != Some(n) {
				viol!(ops, b, "DecodeLength::len reports {got:?} for a collection of {n} elements");
			}
		}
	}
}

fn c19(ops: &TypeOps, b: &[u8], plain: &(Option<Val>, usize)) {
	let d = ops.d();
	let k = b.iter().map(|x| *x as u64).sum::<u64>() % (b.len() as u64 + 3);
	let starts: &[u64] = if cfg!(psc_verif) { &[0, 1, u64::MAX] } else { &[0] };
	for (i, start) in starts.iter().enumerate() {
		let start = if i == 2 { start - k } else { *start };
		let (ok, count, delivered, pos) = (d.counted)(b, start);
		if count != start.saturating_add(delivered) {
			viol!(ops, b, "count() = {count} after {} but the wrapped input delivered {delivered} bytes (start {start})", if ok { "success" } else { "failure" });
		}
		if ok && start == 0 && (pos as u64 != count || pos != plain.1) {
			viol!(ops, b, "count() = {count}, {pos} bytes consumed, encoded length {}", plain.1);
		}
	}
	let (ok, count, advanced) = (d.counted_slice)(b);
	if count != advanced as u64 {
		viol!(ops, b, "count() = {count} after {} but the wrapped slice advanced by {advanced} bytes", if ok { "success" } else { "failure" });
	}
	// through the erased path with the counter under other wrappers
	let mut spy = SpyInput::new(b);
	let mut count = 0;
	{
		let mut dy = Dyn(&mut spy);
		let mut c = parity_scale_codec::CountedInput::new(&mut dy);
		let mut f = |i: &mut dyn Input| -> Result<(), Error> {
			let _ = (d.dynamic)(i);
			Ok(())
		};
		let _ = with_stack(&mut c, &[Layer::Depth(u32::MAX)], &mut f);
		count = count.max(c.count());
	}
	if count != spy.delivered {
		viol!(ops, b, "count() = {count} under a depth limiter but the wrapped input delivered {} bytes", spy.delivered);
	}
}

fuzz_target!(|data: &[u8]| {
	if data.len() < 2 {
		return;
	}
	let (u, prop) = universe();
	let idx = u16::from_le_bytes([data[0], data[1]]) as usize % u.len();
	let ops = &u[idx];
	let b = &data[2..];
	let plain = (ops.d().slice)(b);
	match prop.as_str() {
		"C08" => c08(ops, b, &plain),
		"C11" => c11(ops, b, &plain),
		"C12" => c12(ops, b, &plain),
		"C14" => c14(ops, b, &plain),
		"C18" => c18(ops, b, &plain),
		"C19" => c19(ops, b, &plain),
		other => panic!("unknown VERIF_FUZZ_PROP {other}"),
	}
});

//! Hand-written derive-using types of the static universe. Their model types are written from the
//! definition text (field order, attributes, index rules), never obtained from the macros.

use monitor::bridge::{Heap, Modelled};
use monitor::model::*;
use parity_scale_codec::{Compact, CompactAs, Decode, DecodeWithMemTracking, Encode, HasCompact, MaxEncodedLen};
use std::marker::PhantomData;

fn fields(v: &Val) -> &Vec<Val> {
	match v {
		Val::Tuple(xs) => xs,
		_ => panic!("derived: expected struct value, got {:?}", v),
	}
}

#[derive(Encode, Decode, DecodeWithMemTracking, Debug, PartialEq)]
pub struct SNamed {
	pub a: u8,
	pub b: u32,
	pub c: Vec<u16>,
}
impl Modelled for SNamed {
	fn ty() -> Ty {
		Ty::Struct {
			name: "SNamed".into(),
			fields: vec![FieldTy::plain(u8::ty()), FieldTy::plain(u32::ty()), FieldTy::plain(Vec::<u16>::ty())],
		}
	}
	fn to_val(&self) -> Val {
		Val::Tuple(vec![self.a.to_val(), self.b.to_val(), self.c.to_val()])
	}
	fn from_val(v: &Val) -> Self {
		let f = fields(v);
		SNamed { a: u8::from_val(&f[0]), b: u32::from_val(&f[1]), c: Vec::from_val(&f[2]) }
	}
	fn heap(&self, acc: &mut Heap) {
		self.c.heap(acc)
	}
}

#[derive(Encode, Decode, DecodeWithMemTracking, Debug, PartialEq)]
pub struct STuple(pub u64, pub Option<bool>, pub String);
impl Modelled for STuple {
	fn ty() -> Ty {
		Ty::Struct {
			name: "STuple".into(),
			fields: vec![FieldTy::plain(u64::ty()), FieldTy::plain(Option::<bool>::ty()), FieldTy::plain(Ty::Str)],
		}
	}
	fn to_val(&self) -> Val {
		Val::Tuple(vec![self.0.to_val(), self.1.to_val(), self.2.to_val()])
	}
	fn from_val(v: &Val) -> Self {
		let f = fields(v);
		STuple(u64::from_val(&f[0]), Option::from_val(&f[1]), String::from_val(&f[2]))
	}
	fn heap(&self, acc: &mut Heap) {
		self.2.heap(acc)
	}
}

#[derive(Encode, Decode, DecodeWithMemTracking, MaxEncodedLen, Debug, PartialEq, Clone, Copy, Default)]
pub struct SUnit;
impl Modelled for SUnit {
	fn ty() -> Ty {
		Ty::Struct { name: "SUnit".into(), fields: vec![] }
	}
	fn to_val(&self) -> Val {
		Val::Tuple(vec![])
	}
	fn from_val(_: &Val) -> Self {
		SUnit
	}
}

#[derive(Encode, Decode, DecodeWithMemTracking, Debug, PartialEq)]
pub struct SGeneric<T> {
	pub x: T,
	pub y: Vec<T>,
}
impl<T: Modelled> Modelled for SGeneric<T> {
	fn ty() -> Ty {
		Ty::Struct {
			name: "SGeneric".into(),
			fields: vec![FieldTy::plain(T::ty()), FieldTy::plain(Vec::<T>::ty())],
		}
	}
	fn to_val(&self) -> Val {
		Val::Tuple(vec![self.x.to_val(), self.y.to_val()])
	}
	fn from_val(v: &Val) -> Self {
		let f = fields(v);
		SGeneric { x: T::from_val(&f[0]), y: Vec::from_val(&f[1]) }
	}
	fn heap(&self, acc: &mut Heap) {
		self.x.heap(acc);
		self.y.heap(acc)
	}
}

#[derive(Encode, Decode, DecodeWithMemTracking, MaxEncodedLen, Debug, PartialEq)]
pub struct SCompact {
	#[codec(compact)]
	pub a: u32,
	#[codec(compact)]
	pub b: u128,
	pub c: u8,
}
impl Modelled for SCompact {
	fn ty() -> Ty {
		Ty::Struct {
			name: "SCompact".into(),
			fields: vec![
				FieldTy::as_(u32::ty(), Ty::Compact { bits: 32 }),
				FieldTy::as_(u128::ty(), Ty::Compact { bits: 128 }),
				FieldTy::plain(u8::ty()),
			],
		}
	}
	fn to_val(&self) -> Val {
		Val::Tuple(vec![self.a.to_val(), self.b.to_val(), self.c.to_val()])
	}
	fn from_val(v: &Val) -> Self {
		let f = fields(v);
		SCompact { a: u32::from_val(&f[0]), b: u128::from_val(&f[1]), c: u8::from_val(&f[2]) }
	}
}

#[derive(Encode, Decode, DecodeWithMemTracking, MaxEncodedLen, Debug, PartialEq)]
pub struct SEncodedAs {
	#[codec(encoded_as = "Compact<u64>")]
	pub a: u64,
	pub b: bool,
}
impl Modelled for SEncodedAs {
	fn ty() -> Ty {
		Ty::Struct {
			name: "SEncodedAs".into(),
			fields: vec![FieldTy::as_(u64::ty(), Ty::Compact { bits: 64 }), FieldTy::plain(Ty::Bool)],
		}
	}
	fn to_val(&self) -> Val {
		Val::Tuple(vec![self.a.to_val(), self.b.to_val()])
	}
	fn from_val(v: &Val) -> Self {
		let f = fields(v);
		SEncodedAs { a: u64::from_val(&f[0]), b: bool::from_val(&f[1]) }
	}
}

#[derive(Encode, Decode, DecodeWithMemTracking, MaxEncodedLen, Debug, PartialEq)]
pub struct SSkip {
	pub a: u8,
	#[codec(skip)]
	pub s: u32,
	pub b: u16,
}
impl Modelled for SSkip {
	fn ty() -> Ty {
		Ty::Struct {
			name: "SSkip".into(),
			fields: vec![FieldTy::plain(u8::ty()), FieldTy::skip(u32::ty()), FieldTy::plain(u16::ty())],
		}
	}
	fn to_val(&self) -> Val {
		Val::Tuple(vec![self.a.to_val(), self.s.to_val(), self.b.to_val()])
	}
	fn from_val(v: &Val) -> Self {
		let f = fields(v);
		SSkip { a: u8::from_val(&f[0]), s: Default::default(), b: u16::from_val(&f[2]) }
	}
}

/// single non-skipped field, compact: takes the derive's single-field forwarding path
#[derive(Encode, Decode, DecodeWithMemTracking, MaxEncodedLen, Debug, PartialEq)]
pub struct SSingle {
	#[codec(skip)]
	pub s: u8,
	#[codec(compact)]
	pub v: u64,
}
impl Modelled for SSingle {
	fn ty() -> Ty {
		Ty::Struct {
			name: "SSingle".into(),
			fields: vec![FieldTy::skip(u8::ty()), FieldTy::as_(u64::ty(), Ty::Compact { bits: 64 })],
		}
	}
	fn to_val(&self) -> Val {
		Val::Tuple(vec![self.s.to_val(), self.v.to_val()])
	}
	fn from_val(v: &Val) -> Self {
		let f = fields(v);
		SSingle { s: Default::default(), v: u64::from_val(&f[1]) }
	}
}

/// non-zero-sized type whose encoding is empty
#[derive(Encode, Decode, DecodeWithMemTracking, MaxEncodedLen, Debug, PartialEq, Clone)]
pub struct SAllSkip {
	#[codec(skip)]
	pub a: u32,
}
impl Modelled for SAllSkip {
	fn ty() -> Ty {
		Ty::Struct { name: "SAllSkip".into(), fields: vec![FieldTy::skip(u32::ty())] }
	}
	fn to_val(&self) -> Val {
		Val::Tuple(vec![self.a.to_val()])
	}
	fn from_val(_: &Val) -> Self {
		SAllSkip { a: Default::default() }
	}
}

/// unit-only enum mixing all three index sources; attribute beats discriminant beats position
#[derive(Encode, Decode, DecodeWithMemTracking, MaxEncodedLen, Debug, PartialEq, Clone, Copy)]
pub enum EDisc {
	A = 5,
	B = 20,
	#[codec(index = 1)]
	C = 9,
	D,
	#[codec(skip)]
	S,
}
impl Modelled for EDisc {
	fn ty() -> Ty {
		let v = |name: &str, index: u8, skipped: bool| VariantTy { name: name.into(), index, skipped, fields: vec![] };
		Ty::Enum {
			name: "EDisc".into(),
			// D has neither attribute nor discriminant: its index is its position among the
			// non-skipped variants (3)
			variants: vec![v("A", 5, false), v("B", 20, false), v("C", 1, false), v("D", 3, false), v("S", 0, true)],
		}
	}
	fn to_val(&self) -> Val {
		Val::Variant(
			match self {
				EDisc::A => 0,
				EDisc::B => 1,
				EDisc::C => 2,
				EDisc::D => 3,
				EDisc::S => 4,
			},
			vec![],
		)
	}
	fn from_val(v: &Val) -> Self {
		match v {
			Val::Variant(0, _) => EDisc::A,
			Val::Variant(1, _) => EDisc::B,
			Val::Variant(2, _) => EDisc::C,
			Val::Variant(3, _) => EDisc::D,
			Val::Variant(4, _) => EDisc::S,
			_ => panic!("EDisc: {:?}", v),
		}
	}
}

/// enum with fields, a skipped variant in the middle, skipped and compact fields, recursion
#[derive(Encode, Decode, DecodeWithMemTracking, Debug, PartialEq)]
pub enum EFields {
	#[codec(index = 0)]
	Unit,
	#[codec(index = 4)]
	Tup(u8, #[codec(compact)] u32),
	#[codec(skip)]
	Gone(u8),
	// position among non-skipped variants: 2
	Named {
		x: Vec<u8>,
		#[codec(skip)]
		s: u16,
		y: Option<Box<EFields>>,
	},
	#[codec(index = 255)]
	Last(String),
}
impl Modelled for EFields {
	fn ty() -> Ty {
		static ONCE: std::sync::Once = std::sync::Once::new();
		ONCE.call_once(|| {
			register(
				"EFields",
				Ty::Enum {
					name: "EFields".into(),
					variants: vec![
						VariantTy { name: "Unit".into(), index: 0, skipped: false, fields: vec![] },
						VariantTy {
							name: "Tup".into(),
							index: 4,
							skipped: false,
							fields: vec![FieldTy::plain(Ty::u(1)), FieldTy::as_(Ty::u(4), Ty::Compact { bits: 32 })],
						},
						VariantTy { name: "Gone".into(), index: 0, skipped: true, fields: vec![FieldTy::plain(Ty::u(1))] },
						VariantTy {
							name: "Named".into(),
							index: 2,
							skipped: false,
							fields: vec![
								FieldTy::plain(Ty::seq_m(Ty::u(1), SeqKind::Vec, 1)),
								FieldTy::skip(Ty::u(2)),
								FieldTy::plain(Ty::opt(Ty::ptr(Ty::Named("EFields"), PtrKind::Box))),
							],
						},
						VariantTy { name: "Last".into(), index: 255, skipped: false, fields: vec![FieldTy::plain(Ty::Str)] },
					],
				},
			)
		});
		Ty::Named("EFields")
	}
	fn to_val(&self) -> Val {
		match self {
			EFields::Unit => Val::Variant(0, vec![]),
			EFields::Tup(a, b) => Val::Variant(1, vec![a.to_val(), b.to_val()]),
			EFields::Gone(a) => Val::Variant(2, vec![a.to_val()]),
			EFields::Named { x, s, y } => Val::Variant(3, vec![x.to_val(), s.to_val(), y.to_val()]),
			EFields::Last(s) => Val::Variant(4, vec![s.to_val()]),
		}
	}
	fn from_val(v: &Val) -> Self {
		match v {
			Val::Variant(0, _) => EFields::Unit,
			Val::Variant(1, f) => EFields::Tup(u8::from_val(&f[0]), u32::from_val(&f[1])),
			Val::Variant(2, f) => EFields::Gone(u8::from_val(&f[0])),
			Val::Variant(3, f) => EFields::Named { x: Vec::from_val(&f[0]), s: Default::default(), y: Option::from_val(&f[2]) },
			Val::Variant(4, f) => EFields::Last(String::from_val(&f[0])),
			_ => panic!("EFields: {:?}", v),
		}
	}
	fn heap(&self, acc: &mut Heap) {
		match self {
			EFields::Named { x, y, .. } => {
				x.heap(acc);
				y.heap(acc)
			},
			EFields::Last(s) => s.heap(acc),
			_ => {},
		}
	}
}

#[derive(Encode, Decode, DecodeWithMemTracking, MaxEncodedLen, Debug, PartialEq)]
#[repr(transparent)]
pub struct TNewtype(pub [u8; 32]);
impl Modelled for TNewtype {
	fn ty() -> Ty {
		Ty::Struct { name: "TNewtype".into(), fields: vec![FieldTy::plain(<[u8; 32]>::ty())] }
	}
	fn to_val(&self) -> Val {
		Val::Tuple(vec![self.0.to_val()])
	}
	fn from_val(v: &Val) -> Self {
		TNewtype(<[u8; 32]>::from_val(&fields(v)[0]))
	}
}

#[derive(Encode, Decode, DecodeWithMemTracking, MaxEncodedLen, Debug, PartialEq)]
#[repr(transparent)]
pub struct TNewtypeZ(pub PhantomData<u8>, pub [u32; 3], pub ());
impl Modelled for TNewtypeZ {
	fn ty() -> Ty {
		Ty::Struct {
			name: "TNewtypeZ".into(),
			fields: vec![FieldTy::plain(Ty::Unit), FieldTy::plain(<[u32; 3]>::ty()), FieldTy::plain(Ty::Unit)],
		}
	}
	fn to_val(&self) -> Val {
		Val::Tuple(vec![Val::Unit, self.1.to_val(), Val::Unit])
	}
	fn from_val(v: &Val) -> Self {
		TNewtypeZ(PhantomData, <[u32; 3]>::from_val(&fields(v)[1]), ())
	}
}

/// transparent newtype over a type with drop glue (decode_into forwarding to an element path)
#[derive(Encode, Decode, DecodeWithMemTracking, Debug, PartialEq)]
#[repr(transparent)]
pub struct TNewtypeS(pub [String; 2]);
impl Modelled for TNewtypeS {
	fn ty() -> Ty {
		Ty::Struct { name: "TNewtypeS".into(), fields: vec![FieldTy::plain(<[String; 2]>::ty())] }
	}
	fn to_val(&self) -> Val {
		Val::Tuple(vec![self.0.to_val()])
	}
	fn from_val(v: &Val) -> Self {
		TNewtypeS(<[String; 2]>::from_val(&fields(v)[0]))
	}
	fn heap(&self, acc: &mut Heap) {
		self.0.heap(acc)
	}
}

#[derive(Encode, Decode, DecodeWithMemTracking, Debug, PartialEq)]
pub enum List {
	Nil,
	Cons(u8, Box<List>),
}
impl Modelled for List {
	fn ty() -> Ty {
		static ONCE: std::sync::Once = std::sync::Once::new();
		ONCE.call_once(|| {
			register(
				"List",
				Ty::Enum {
					name: "List".into(),
					variants: vec![
						VariantTy { name: "Nil".into(), index: 0, skipped: false, fields: vec![] },
						VariantTy {
							name: "Cons".into(),
							index: 1,
							skipped: false,
							fields: vec![FieldTy::plain(Ty::u(1)), FieldTy::plain(Ty::ptr(Ty::Named("List"), PtrKind::Box))],
						},
					],
				},
			)
		});
		Ty::Named("List")
	}
	fn to_val(&self) -> Val {
		// iterative to survive long lists
		let mut items = Vec::new();
		let mut cur = self;
		while let List::Cons(x, next) = cur {
			items.push(*x);
			cur = next;
		}
		let mut v = Val::Variant(0, vec![]);
		for x in items.into_iter().rev() {
			v = Val::Variant(1, vec![x.to_val(), v]);
		}
		v
	}
	fn from_val(v: &Val) -> Self {
		match v {
			Val::Variant(0, _) => List::Nil,
			Val::Variant(1, f) => List::Cons(u8::from_val(&f[0]), Box::new(List::from_val(&f[1]))),
			_ => panic!("List: {:?}", v),
		}
	}
	fn heap(&self, acc: &mut Heap) {
		let mut cur = self;
		while let List::Cons(_, next) = cur {
			acc.exact += core::mem::size_of::<List>();
			acc.objects += 1;
			cur = next;
		}
	}
}

#[derive(Encode, Decode, DecodeWithMemTracking, Debug, PartialEq)]
pub struct Tree {
	pub v: u8,
	pub kids: Vec<Tree>,
}
impl Modelled for Tree {
	fn ty() -> Ty {
		static ONCE: std::sync::Once = std::sync::Once::new();
		ONCE.call_once(|| {
			register(
				"Tree",
				Ty::Struct {
					name: "Tree".into(),
					fields: vec![
						FieldTy::plain(Ty::u(1)),
						FieldTy::plain(Ty::seq_m(Ty::Named("Tree"), SeqKind::Vec, core::mem::size_of::<Tree>())),
					],
				},
			)
		});
		Ty::Named("Tree")
	}
	fn to_val(&self) -> Val {
		Val::Tuple(vec![self.v.to_val(), Val::Seq(self.kids.iter().map(|k| k.to_val()).collect())])
	}
	fn from_val(v: &Val) -> Self {
		let f = fields(v);
		let kids = match &f[1] {
			Val::Seq(xs) => xs.iter().map(Tree::from_val).collect(),
			x => panic!("Tree: {:?}", x),
		};
		Tree { v: u8::from_val(&f[0]), kids }
	}
	fn heap(&self, acc: &mut Heap) {
		let b = self.kids.len() * core::mem::size_of::<Tree>();
		acc.exact += b;
		if b > 0 {
			acc.objects += 1;
		}
		self.kids.iter().for_each(|k| k.heap(acc));
	}
}

/// map-recursive type
#[derive(Encode, Decode, DecodeWithMemTracking, Debug, PartialEq)]
pub struct MapRec(pub std::collections::BTreeMap<u8, MapRec>);
impl Modelled for MapRec {
	fn ty() -> Ty {
		static ONCE: std::sync::Once = std::sync::Once::new();
		ONCE.call_once(|| {
			register(
				"MapRec",
				Ty::Struct {
					name: "MapRec".into(),
					fields: vec![FieldTy::plain(Ty::Map(Box::new(Ty::u(1)), Box::new(Ty::Named("MapRec"))))],
				},
			)
		});
		Ty::Named("MapRec")
	}
	fn to_val(&self) -> Val {
		Val::Tuple(vec![Val::Seq(self.0.iter().map(|(k, v)| Val::Tuple(vec![k.to_val(), v.to_val()])).collect())])
	}
	fn from_val(v: &Val) -> Self {
		match &fields(v)[0] {
			Val::Seq(xs) => MapRec(
				xs.iter()
					.map(|kv| match kv {
						Val::Tuple(kv) => (u8::from_val(&kv[0]), MapRec::from_val(&kv[1])),
						x => panic!("MapRec: {:?}", x),
					})
					.collect(),
			),
			x => panic!("MapRec: {:?}", x),
		}
	}
	fn heap(&self, acc: &mut Heap) {
		acc.tree += self.0.len() * core::mem::size_of::<(u8, MapRec)>();
		if !self.0.is_empty() {
			acc.objects += 1;
		}
		self.0.values().for_each(|v| v.heap(acc));
	}
}

/// `CompactAs` derive: `Compact<Wrapped>` encodes as `Compact<u32>`
#[derive(Encode, Decode, DecodeWithMemTracking, CompactAs, Debug, PartialEq, Clone, Copy)]
pub struct Wrapped(pub u32);
impl monitor::bridge::CompactModel for Wrapped {
	fn bits() -> u8 {
		32
	}
	fn to_u128(&self) -> u128 {
		self.0 as u128
	}
	fn from_u128(x: u128) -> Self {
		Wrapped(x as u32)
	}
}

/// hand-written `CompactAs` with a *fallible* conversion: a byte-sized quantity that travels as
/// `Compact<u32>`; values above 255 are refused by `decode_from`, so the accepted language is that
/// of `Compact<u8>`
#[derive(Debug, PartialEq, Clone, Copy)]
pub struct Narrow(u32);
impl CompactAs for Narrow {
	type As = u32;
	fn encode_as(&self) -> &u32 {
		&self.0
	}
	fn decode_from(x: u32) -> Result<Self, parity_scale_codec::Error> {
		if x > 255 {
			Err("Narrow: out of range".into())
		} else {
			Ok(Narrow(x))
		}
	}
}
impl From<Compact<Narrow>> for Narrow {
	fn from(x: Compact<Narrow>) -> Self {
		x.0
	}
}
impl monitor::bridge::CompactModel for Narrow {
	fn bits() -> u8 {
		8
	}
	fn to_u128(&self) -> u128 {
		self.0 as u128
	}
	fn from_u128(x: u128) -> Self {
		Narrow(x as u32 & 0xff)
	}
}

/// a `#[codec(compact)]` field of the fallible `CompactAs` type
#[derive(Encode, Decode, Debug, PartialEq)]
pub struct SNarrow {
	#[codec(compact)]
	pub n: Narrow,
	pub tail: u16,
}
impl Modelled for SNarrow {
	fn ty() -> Ty {
		Ty::Struct { name: "SNarrow".into(), fields: vec![FieldTy::as_(Ty::u(1), Ty::Compact { bits: 8 }), FieldTy::plain(Ty::u(2))] }
	}
	fn to_val(&self) -> Val {
		Val::Tuple(vec![Val::Int(self.n.0 as u128), self.tail.to_val()])
	}
	fn from_val(v: &Val) -> Self {
		let f = fields(v);
		SNarrow { n: Narrow(u8::from_val(&f[0]) as u32), tail: u16::from_val(&f[1]) }
	}
}

/// generic struct with a `HasCompact` bound
#[derive(Encode, Decode, DecodeWithMemTracking, Debug, PartialEq)]
pub struct SGenCompact<T: HasCompact> {
	#[codec(compact)]
	pub v: T,
	pub w: T,
}
impl<T: Modelled + HasCompact> Modelled for SGenCompact<T> {
	fn ty() -> Ty {
		let bits = match T::ty() {
			Ty::Int { bytes, signed: false } => bytes * 8,
			t => panic!("SGenCompact over {:?}", t),
		};
		Ty::Struct {
			name: "SGenCompact".into(),
			fields: vec![FieldTy::as_(T::ty(), Ty::Compact { bits }), FieldTy::plain(T::ty())],
		}
	}
	fn to_val(&self) -> Val {
		Val::Tuple(vec![self.v.to_val(), self.w.to_val()])
	}
	fn from_val(v: &Val) -> Self {
		let f = fields(v);
		SGenCompact { v: T::from_val(&f[0]), w: T::from_val(&f[1]) }
	}
}

/// transparent newtypes whose only field carries an attribute: the derive must NOT emit the
/// in-place `decode_into` forwarding for them
#[derive(Encode, Decode, DecodeWithMemTracking, MaxEncodedLen, Debug, PartialEq)]
#[repr(transparent)]
pub struct TCompact(#[codec(compact)] pub u32);
impl Modelled for TCompact {
	fn ty() -> Ty {
		Ty::Struct { name: "TCompact".into(), fields: vec![FieldTy::as_(Ty::u(4), Ty::Compact { bits: 32 })] }
	}
	fn to_val(&self) -> Val {
		Val::Tuple(vec![self.0.to_val()])
	}
	fn from_val(v: &Val) -> Self {
		TCompact(u32::from_val(&fields(v)[0]))
	}
}

#[derive(Encode, Decode, DecodeWithMemTracking, MaxEncodedLen, Debug, PartialEq)]
#[repr(transparent)]
pub struct TEncAs {
	#[codec(encoded_as = "Compact<u64>")]
	pub v: u64,
}
impl Modelled for TEncAs {
	fn ty() -> Ty {
		Ty::Struct { name: "TEncAs".into(), fields: vec![FieldTy::as_(Ty::u(8), Ty::Compact { bits: 64 })] }
	}
	fn to_val(&self) -> Val {
		Val::Tuple(vec![self.v.to_val()])
	}
	fn from_val(v: &Val) -> Self {
		TEncAs { v: u64::from_val(&fields(v)[0]) }
	}
}

#[derive(Encode, Decode, DecodeWithMemTracking, MaxEncodedLen, Debug, PartialEq)]
#[repr(transparent)]
pub struct TSkip(pub u16, #[codec(skip)] pub PhantomData<u8>);
impl Modelled for TSkip {
	fn ty() -> Ty {
		Ty::Struct { name: "TSkip".into(), fields: vec![FieldTy::plain(Ty::u(2)), FieldTy::skip(Ty::Unit)] }
	}
	fn to_val(&self) -> Val {
		Val::Tuple(vec![self.0.to_val(), Val::Unit])
	}
	fn from_val(v: &Val) -> Self {
		TSkip(u16::from_val(&fields(v)[0]), PhantomData)
	}
}

/// variant carrying BOTH an index attribute and a different explicit discriminant
#[derive(Encode, Decode, DecodeWithMemTracking, MaxEncodedLen, Debug, PartialEq, Clone, Copy)]
pub enum EBoth {
	#[codec(index = 7)]
	A = 1,
	#[codec(index = 200)]
	B = 2,
	C = 3,
}
impl Modelled for EBoth {
	fn ty() -> Ty {
		let v = |name: &str, index: u8| VariantTy { name: name.into(), index, skipped: false, fields: vec![] };
		Ty::Enum { name: "EBoth".into(), variants: vec![v("A", 7), v("B", 200), v("C", 3)] }
	}
	fn to_val(&self) -> Val {
		Val::Variant(*self as usize - 1, vec![])
	}
	fn from_val(v: &Val) -> Self {
		match v {
			Val::Variant(0, _) => EBoth::A,
			Val::Variant(1, _) => EBoth::B,
			Val::Variant(2, _) => EBoth::C,
			_ => panic!("EBoth: {:?}", v),
		}
	}
}

/// variants whose field *types* coincide while their representations differ (plain / compact /
/// encoded_as / with an extra skipped field): every variant counts for the declared maximum
#[derive(Encode, Decode, DecodeWithMemTracking, MaxEncodedLen, Debug, PartialEq, Clone)]
pub enum ETwins {
	Plain(u32),
	Packed(#[codec(compact)] u32),
	PlainN { a: u64 },
	AsN {
		#[codec(encoded_as = "Compact<u64>")]
		a: u64,
	},
	Short(#[codec(skip)] u64, u16),
	Long(u64, u16),
	#[codec(index = 9)]
	Big(#[codec(compact)] u128),
	#[codec(index = 8)]
	BigPlain(u128),
}
impl Modelled for ETwins {
	fn ty() -> Ty {
		let v = |name: &str, index: u8, fields: Vec<FieldTy>| VariantTy { name: name.into(), index, skipped: false, fields };
		Ty::Enum {
			name: "ETwins".into(),
			variants: vec![
				v("Plain", 0, vec![FieldTy::plain(Ty::u(4))]),
				v("Packed", 1, vec![FieldTy::as_(Ty::u(4), Ty::Compact { bits: 32 })]),
				v("PlainN", 2, vec![FieldTy::plain(Ty::u(8))]),
				v("AsN", 3, vec![FieldTy::as_(Ty::u(8), Ty::Compact { bits: 64 })]),
				v("Short", 4, vec![FieldTy::skip(Ty::u(8)), FieldTy::plain(Ty::u(2))]),
				v("Long", 5, vec![FieldTy::plain(Ty::u(8)), FieldTy::plain(Ty::u(2))]),
				v("Big", 9, vec![FieldTy::as_(Ty::u(16), Ty::Compact { bits: 128 })]),
				v("BigPlain", 8, vec![FieldTy::plain(Ty::u(16))]),
			],
		}
	}
	fn to_val(&self) -> Val {
		match self {
			ETwins::Plain(a) => Val::Variant(0, vec![a.to_val()]),
			ETwins::Packed(a) => Val::Variant(1, vec![a.to_val()]),
			ETwins::PlainN { a } => Val::Variant(2, vec![a.to_val()]),
			ETwins::AsN { a } => Val::Variant(3, vec![a.to_val()]),
			ETwins::Short(a, b) => Val::Variant(4, vec![a.to_val(), b.to_val()]),
			ETwins::Long(a, b) => Val::Variant(5, vec![a.to_val(), b.to_val()]),
			ETwins::Big(a) => Val::Variant(6, vec![a.to_val()]),
			ETwins::BigPlain(a) => Val::Variant(7, vec![a.to_val()]),
		}
	}
	fn from_val(v: &Val) -> Self {
		match v {
			Val::Variant(0, f) => ETwins::Plain(u32::from_val(&f[0])),
			Val::Variant(1, f) => ETwins::Packed(u32::from_val(&f[0])),
			Val::Variant(2, f) => ETwins::PlainN { a: u64::from_val(&f[0]) },
			Val::Variant(3, f) => ETwins::AsN { a: u64::from_val(&f[0]) },
			Val::Variant(4, _) => ETwins::Short(0, u16::from_val(&fields_of(v)[1])),
			Val::Variant(5, f) => ETwins::Long(u64::from_val(&f[0]), u16::from_val(&f[1])),
			Val::Variant(6, f) => ETwins::Big(u128::from_val(&f[0])),
			Val::Variant(7, f) => ETwins::BigPlain(u128::from_val(&f[0])),
			_ => panic!("ETwins: {:?}", v),
		}
	}
}
/// two-variant twins: the later variant has the same field type in a LONGER representation and
/// alone decides the declared maximum
macro_rules! twin_enum {
	($name:ident, $t:ty, $bytes:expr, $bits:expr, $second:meta) => {
		#[derive(Encode, Decode, DecodeWithMemTracking, MaxEncodedLen, Debug, PartialEq, Clone)]
		pub enum $name {
			Plain($t),
			Other(#[$second] $t),
		}
		impl Modelled for $name {
			fn ty() -> Ty {
				let v = |name: &str, index: u8, fields: Vec<FieldTy>| VariantTy { name: name.into(), index, skipped: false, fields };
				Ty::Enum {
					name: stringify!($name).into(),
					variants: vec![v("Plain", 0, vec![FieldTy::plain(Ty::u($bytes))]), v("Other", 1, vec![FieldTy::as_(Ty::u($bytes), Ty::Compact { bits: $bits })])],
				}
			}
			fn to_val(&self) -> Val {
				match self {
					$name::Plain(a) => Val::Variant(0, vec![a.to_val()]),
					$name::Other(a) => Val::Variant(1, vec![a.to_val()]),
				}
			}
			fn from_val(v: &Val) -> Self {
				match v {
					Val::Variant(0, f) => $name::Plain(<$t>::from_val(&f[0])),
					Val::Variant(1, f) => $name::Other(<$t>::from_val(&f[0])),
					_ => panic!("twin enum: {:?}", v),
				}
			}
		}
	};
}
twin_enum!(ETwin32, u32, 4, 32, codec(compact));
twin_enum!(ETwin16, u16, 2, 16, codec(encoded_as = "Compact<u16>"));
twin_enum!(ETwin128, u128, 16, 128, codec(compact));

fn fields_of(v: &Val) -> &Vec<Val> {
	match v {
		Val::Variant(_, f) => f,
		_ => panic!("fields_of: {:?}", v),
	}
}

/// user-defined wrapper relying on the DEFAULT `WrapperTypeDecode::decode_wrapped`
/// (descend, decode the wrapped type, convert, ascend) and on `WrapperTypeEncode`
#[derive(Debug, PartialEq)]
pub struct WrapDefault(pub Vec<u16>);
impl From<Vec<u16>> for WrapDefault {
	fn from(v: Vec<u16>) -> Self {
		WrapDefault(v)
	}
}
impl core::ops::Deref for WrapDefault {
	type Target = Vec<u16>;
	fn deref(&self) -> &Vec<u16> {
		&self.0
	}
}
impl parity_scale_codec::WrapperTypeEncode for WrapDefault {}
impl parity_scale_codec::WrapperTypeDecode for WrapDefault {
	type Wrapped = Vec<u16>;
}
impl DecodeWithMemTracking for WrapDefault {}
impl Modelled for WrapDefault {
	fn ty() -> Ty {
		Ty::ptr(<Vec<u16>>::ty(), PtrKind::Box)
	}
	fn to_val(&self) -> Val {
		self.0.to_val()
	}
	fn from_val(v: &Val) -> Self {
		WrapDefault(Vec::from_val(v))
	}
	fn heap(&self, acc: &mut Heap) {
		self.0.heap(acc)
	}
}

/// zero-sized in memory, but NOT empty on the wire: a single field-less variant still writes its index
#[derive(Encode, Decode, DecodeWithMemTracking, MaxEncodedLen, Debug, PartialEq, Eq, PartialOrd, Ord, Clone, Copy, Default)]
pub enum Only {
	#[default]
	#[codec(index = 7)]
	V,
}
impl Modelled for Only {
	fn ty() -> Ty {
		Ty::Enum { name: "Only".into(), variants: vec![VariantTy { name: "V".into(), index: 7, skipped: false, fields: vec![] }] }
	}
	fn to_val(&self) -> Val {
		Val::Variant(0, vec![])
	}
	fn from_val(_: &Val) -> Self {
		Only::V
	}
}

/// zero-sized unit struct with a hand-written codec that writes / checks one constant byte
#[derive(Debug, PartialEq, Eq, Clone, Copy, Default)]
pub struct Marker;
impl Encode for Marker {
	fn size_hint(&self) -> usize {
		1
	}
	fn encode_to<W: parity_scale_codec::Output + ?Sized>(&self, dest: &mut W) {
		dest.push_byte(0x2A);
	}
}
impl parity_scale_codec::EncodeLike for Marker {}
impl Decode for Marker {
	fn decode<I: parity_scale_codec::Input>(input: &mut I) -> Result<Self, parity_scale_codec::Error> {
		match input.read_byte()? {
			0x2A => Ok(Marker),
			_ => Err("not a marker".into()),
		}
	}
	fn encoded_fixed_size() -> Option<usize> {
		Some(1)
	}
}
impl DecodeWithMemTracking for Marker {}
impl Modelled for Marker {
	fn ty() -> Ty {
		// one index byte 0x2A and nothing else
		Ty::Enum { name: "Marker".into(), variants: vec![VariantTy { name: "M".into(), index: 0x2A, skipped: false, fields: vec![] }] }
	}
	fn to_val(&self) -> Val {
		Val::Variant(0, vec![])
	}
	fn from_val(_: &Val) -> Self {
		Marker
	}
}

/// user type with a fixed encoded size equal to its memory size but a NON-native wire format
/// (big-endian): any "fixed size == memory size, so copy the bytes" shortcut gets it wrong
#[derive(Debug, PartialEq, Eq, Clone, Copy)]
pub struct BeU32(pub u32);
impl Encode for BeU32 {
	fn size_hint(&self) -> usize {
		4
	}
	fn using_encoded<R, F: FnOnce(&[u8]) -> R>(&self, f: F) -> R {
		f(&self.0.to_be_bytes())
	}
}
impl parity_scale_codec::EncodeLike for BeU32 {}
impl Decode for BeU32 {
	fn decode<I: parity_scale_codec::Input>(input: &mut I) -> Result<Self, parity_scale_codec::Error> {
		let mut b = [0u8; 4];
		input.read(&mut b)?;
		Ok(BeU32(u32::from_be_bytes(b)))
	}
	fn encoded_fixed_size() -> Option<usize> {
		Some(4)
	}
}
impl DecodeWithMemTracking for BeU32 {}
impl Modelled for BeU32 {
	fn ty() -> Ty {
		// the model sees a struct of four bytes, most significant first
		Ty::Struct { name: "BeU32".into(), fields: vec![FieldTy::plain(Ty::u(1)), FieldTy::plain(Ty::u(1)), FieldTy::plain(Ty::u(1)), FieldTy::plain(Ty::u(1))] }
	}
	fn to_val(&self) -> Val {
		Val::Tuple(self.0.to_be_bytes().iter().map(|b| Val::Int(*b as u128)).collect())
	}
	fn from_val(v: &Val) -> Self {
		let f = fields(v);
		let mut b = [0u8; 4];
		for i in 0..4 {
			b[i] = u8::from_val(&f[i]);
		}
		BeU32(u32::from_be_bytes(b))
	}
}

/// transparent newtypes with a zero-sized field that is NOT empty on the wire
#[derive(Encode, Decode, DecodeWithMemTracking, MaxEncodedLen, Debug, PartialEq)]
#[repr(transparent)]
pub struct TOnlyFirst(pub Only, pub u32);
impl Modelled for TOnlyFirst {
	fn ty() -> Ty {
		Ty::Struct { name: "TOnlyFirst".into(), fields: vec![FieldTy::plain(Only::ty()), FieldTy::plain(Ty::u(4))] }
	}
	fn to_val(&self) -> Val {
		Val::Tuple(vec![self.0.to_val(), self.1.to_val()])
	}
	fn from_val(v: &Val) -> Self {
		TOnlyFirst(Only::V, u32::from_val(&fields(v)[1]))
	}
}

#[derive(Encode, Decode, DecodeWithMemTracking, Debug, PartialEq)]
#[repr(transparent)]
pub struct TOnlyLast {
	pub v: [u16; 2],
	pub m: Marker,
	pub p: PhantomData<u8>,
}
impl Modelled for TOnlyLast {
	fn ty() -> Ty {
		Ty::Struct { name: "TOnlyLast".into(), fields: vec![FieldTy::plain(<[u16; 2]>::ty()), FieldTy::plain(Marker::ty()), FieldTy::plain(Ty::Unit)] }
	}
	fn to_val(&self) -> Val {
		Val::Tuple(vec![self.v.to_val(), self.m.to_val(), Val::Unit])
	}
	fn from_val(v: &Val) -> Self {
		TOnlyLast { v: <[u16; 2]>::from_val(&fields(v)[0]), m: Marker, p: PhantomData }
	}
}

/// transparent newtype: attributed payload field plus an un-attributed zero-sized field
#[derive(Encode, Decode, DecodeWithMemTracking, MaxEncodedLen, Debug, PartialEq)]
#[repr(transparent)]
pub struct TCompactZ(#[codec(compact)] pub u64, pub PhantomData<u8>);
impl Modelled for TCompactZ {
	fn ty() -> Ty {
		Ty::Struct { name: "TCompactZ".into(), fields: vec![FieldTy::as_(Ty::u(8), Ty::Compact { bits: 64 }), FieldTy::plain(Ty::Unit)] }
	}
	fn to_val(&self) -> Val {
		Val::Tuple(vec![self.0.to_val(), Val::Unit])
	}
	fn from_val(v: &Val) -> Self {
		TCompactZ(u64::from_val(&fields(v)[0]), PhantomData)
	}
}

#[derive(Encode, Decode, DecodeWithMemTracking, MaxEncodedLen, Debug, PartialEq)]
#[repr(transparent)]
pub struct TEncAsZ {
	pub z: (),
	#[codec(encoded_as = "Compact<u16>")]
	pub v: u16,
}
impl Modelled for TEncAsZ {
	fn ty() -> Ty {
		Ty::Struct { name: "TEncAsZ".into(), fields: vec![FieldTy::plain(Ty::Unit), FieldTy::as_(Ty::u(2), Ty::Compact { bits: 16 })] }
	}
	fn to_val(&self) -> Val {
		Val::Tuple(vec![Val::Unit, self.v.to_val()])
	}
	fn from_val(v: &Val) -> Self {
		TEncAsZ { z: (), v: u16::from_val(&fields(v)[1]) }
	}
}

/// transparent newtype made of zero-sized fields only
#[derive(Encode, Decode, DecodeWithMemTracking, MaxEncodedLen, Debug, PartialEq)]
#[repr(transparent)]
pub struct TAllZ(pub PhantomData<u64>, pub ());
impl Modelled for TAllZ {
	fn ty() -> Ty {
		Ty::Struct { name: "TAllZ".into(), fields: vec![FieldTy::plain(Ty::Unit), FieldTy::plain(Ty::Unit)] }
	}
	fn to_val(&self) -> Val {
		Val::Tuple(vec![Val::Unit, Val::Unit])
	}
	fn from_val(_: &Val) -> Self {
		TAllZ(PhantomData, ())
	}
}

/// generic user-defined smart pointer relying on the default `WrapperTypeDecode::decode_wrapped`
#[derive(Debug, PartialEq)]
pub struct Shared<T>(pub Box<T>);
impl<T> From<T> for Shared<T> {
	fn from(v: T) -> Self {
		Shared(Box::new(v))
	}
}
impl<T> core::ops::Deref for Shared<T> {
	type Target = T;
	fn deref(&self) -> &T {
		&self.0
	}
}
impl<T> parity_scale_codec::WrapperTypeEncode for Shared<T> {}
impl<T> parity_scale_codec::WrapperTypeDecode for Shared<T> {
	type Wrapped = T;
}
impl<T: DecodeWithMemTracking> DecodeWithMemTracking for Shared<T> {}
impl<T: Modelled> Modelled for Shared<T> {
	fn ty() -> Ty {
		Ty::ptr(T::ty(), PtrKind::Box)
	}
	fn to_val(&self) -> Val {
		self.0.to_val()
	}
	fn from_val(v: &Val) -> Self {
		Shared(Box::new(T::from_val(v)))
	}
	fn heap(&self, acc: &mut Heap) {
		// the box is allocated by this harness type's own `From<T>` after decoding, not by the
		// crate: only the wrapped value's payload is the decoder's business
		(*self.0).heap(acc)
	}
}

/// recursive type whose recursion goes through the user-defined wrapper
#[derive(Encode, Decode, DecodeWithMemTracking, Debug, PartialEq)]
pub enum WList {
	Nil,
	Cons(u8, Shared<WList>),
}
impl Modelled for WList {
	fn ty() -> Ty {
		static ONCE: std::sync::Once = std::sync::Once::new();
		ONCE.call_once(|| {
			register(
				"WList",
				Ty::Enum {
					name: "WList".into(),
					variants: vec![
						VariantTy { name: "Nil".into(), index: 0, skipped: false, fields: vec![] },
						VariantTy {
							name: "Cons".into(),
							index: 1,
							skipped: false,
							fields: vec![FieldTy::plain(Ty::u(1)), FieldTy::plain(Ty::ptr(Ty::Named("WList"), PtrKind::Box))],
						},
					],
				},
			)
		});
		Ty::Named("WList")
	}
	fn to_val(&self) -> Val {
		let mut items = Vec::new();
		let mut cur = self;
		while let WList::Cons(x, next) = cur {
			items.push(*x);
			cur = &next.0;
		}
		let mut v = Val::Variant(0, vec![]);
		for x in items.into_iter().rev() {
			v = Val::Variant(1, vec![x.to_val(), v]);
		}
		v
	}
	fn from_val(v: &Val) -> Self {
		match v {
			Val::Variant(0, _) => WList::Nil,
			Val::Variant(1, f) => WList::Cons(u8::from_val(&f[0]), Shared(Box::new(WList::from_val(&f[1])))),
			_ => panic!("WList: {:?}", v),
		}
	}
}

//! The type universe: every concrete type the monitors exercise, one `TypeOps` each.

pub mod derived;

use crate::derived::*;
use bitvec::prelude::{BitBox, BitVec, Lsb0, Msb0};
use bytes::Bytes;
use core::marker::PhantomData;
use core::num::*;
use core::ops::{Range, RangeInclusive};
use core::time::Duration;
use generic_array::{typenum, GenericArray};
use monitor::bridge::Twin;
use monitor::ops::TypeOps;
use parity_scale_codec::{Compact, OptionBool};
use std::borrow::Cow;
use std::collections::{BTreeMap, BTreeSet, BinaryHeap, LinkedList, VecDeque};
use std::rc::Rc;
use std::sync::Arc;

/// One entry per type; capabilities (memory tracking, declared maximum / constant length, length
/// peeking) are probed at compile time, so a type that newly gains such a declaration is picked
/// up without editing this list.
macro_rules! t {
	($v:ident $(, $tag:literal)* ; $($t:ty),* $(,)?) => {{
		let tags: &[&'static str] = &[$($tag),*];
		$( $v.push(monitor::probe_ops!($t).tags(tags)); )*
	}}
}

pub type T4 = (u8, i16, bool, Compact<u32>);
pub type T5 = (u8, u16, u32, u64, u128);
pub type T6 = (Option<u8>, String, (), [u8; 2], i8, Vec<u8>);
pub type T7 = (u8, u8, u8, u8, u8, u8, u8);
pub type T8 = (u8, u16, u8, u32, u8, u64, u8, u128);
pub type T9 = (bool, bool, bool, bool, bool, bool, bool, bool, bool);
pub type T10 = (u8, u16, u32, u64, u128, i8, i16, i32, i64, i128);
pub type T11 = (u8, u8, u8, u8, u8, u8, u8, u8, u8, u8, String);
pub type T12 = (u16, u16, u16, u16, u16, u16, u16, u16, u16, u16, u16, Option<u16>);
pub type T13 = (u8, u8, u8, u8, u8, u8, u8, u8, u8, u8, u8, u8, Vec<u8>);
pub type T14 = (u8, u8, u8, u8, u8, u8, u8, u8, u8, u8, u8, u8, u8, Compact<u64>);
pub type T15 = (u8, u8, u8, u8, u8, u8, u8, u8, u8, u8, u8, u8, u8, u8, bool);
pub type T16 = (u8, u8, u8, u8, u8, u8, u8, u8, u8, u8, u8, u8, u8, u8, u8, u32);
pub type T17 = (u8, u8, u8, u8, u8, u8, u8, u8, u8, u8, u8, u8, u8, u8, u8, u8, i64);
pub type T18 = (u8, u16, u32, u64, u128, i8, i16, i32, i64, i128, bool, (), Option<u8>, String, Vec<u16>, [u8; 3], Compact<u16>, Box<u8>);

pub fn build() -> Vec<TypeOps> {
	let mut v: Vec<TypeOps> = Vec::new();

	// --- primitives
	t!(v, "prim"; u8, u16, u32, u64, u128, i8, i16, i32, i64, i128);
	t!(v, "prim"; f32, f64);
	t!(v; bool);
	t!(v, "zst"; ());
	t!(v; Compact<u8>, Compact<u16>, Compact<u32>, Compact<u64>, Compact<u128>);
	t!(v, "zst"; Compact<()>);
	t!(v; NonZeroU8, NonZeroU16, NonZeroU32, NonZeroU64, NonZeroU128, NonZeroI8, NonZeroI16, NonZeroI32, NonZeroI64, NonZeroI128);
	t!(v, "zst"; PhantomData<u8>);
	t!(v; Duration, Range<u8>, Range<u64>, RangeInclusive<u32>, RangeInclusive<i128>);
	t!(v; Range<Compact<u32>>);

	// --- option / result
	t!(v; Option<u8>, Option<bool>, Option<u128>, Option<Option<()>>, Option<Compact<u64>>, Option<NonZeroU32>, Option<Duration>);
	t!(v; OptionBool, Option<String>, Option<Vec<u32>>, Option<OptionBool>);
	t!(v; Option<Box<u16>>);
	t!(v; Result<u8, bool>, Result<bool, u8>, Result<(), ()>, Result<u64, Compact<u32>>, Result<Option<u8>, [u8; 3]>);
	t!(v; Result<Vec<u8>, String>, Result<Result<u8, String>, Option<Vec<u16>>>);
	// both sides of a fixed, but different, size
	t!(v; Result<u32, u16>, Result<u16, u64>, Result<i128, bool>, [Result<u64, u16>; 3], Vec<Result<u32, u16>>, (Result<[u16; 3], f32>, u8), Option<Result<u32, u16>>);
	t!(v, "derived"; ETwins, Vec<ETwins>, [ETwins; 2], Option<ETwins>);
	t!(v, "derived"; ETwin32, ETwin16, ETwin128, [ETwin32; 2], (ETwin16, u8), Option<ETwin128>);

	// --- sequences of primitives (bulk paths)
	t!(v, "prim-seq"; Vec<u8>, Vec<u16>, Vec<u32>, Vec<u64>, Vec<u128>, Vec<i8>, Vec<i16>, Vec<i32>, Vec<i64>, Vec<i128>, Vec<f32>, Vec<f64>);
	t!(v, "prim-seq"; VecDeque<u8>, VecDeque<u16>, VecDeque<u32>, VecDeque<u64>, VecDeque<i128>, VecDeque<f64>);
	// --- element-wise twins
	t!(v, "twin-seq"; Vec<Twin<u8>>, Vec<Twin<u32>>, Vec<Twin<i128>>, Vec<Twin<f64>>, VecDeque<Twin<u16>>);

	// --- sequences of other things
	t!(v; Vec<bool>, Vec<String>, Vec<Vec<u8>>, Vec<(u8, u16)>, Vec<Option<u32>>, Vec<Compact<u32>>, Vec<[u8; 4]>, Vec<OptionBool>, Vec<NonZeroU16>, Vec<Duration>);
	t!(v, "ptr-elem"; Vec<Box<u32>>, Vec<Rc<u64>>, Vec<Arc<u16>>, VecDeque<Box<u32>>);
	t!(v, "zst-elem"; Vec<()>, Vec<Box<()>>, Vec<SAllSkip>, Vec<PhantomData<u32>>, VecDeque<()>, Vec<[u8; 0]>, Vec<SUnit>);
	t!(v; Vec<Vec<Vec<u8>>>, Vec<Vec<Vec<Vec<u8>>>>, Vec<BTreeMap<u8, u8>>, Vec<Vec<String>>, Vec<Option<Vec<(u8, Vec<String>)>>>);
	t!(v; VecDeque<String>, VecDeque<(u8, u16)>, VecDeque<Vec<u16>>);
	t!(v; LinkedList<u8>, LinkedList<u32>, LinkedList<String>, LinkedList<Vec<u8>>, LinkedList<LinkedList<u16>>);
	t!(v, "zst-elem"; LinkedList<()>);
	t!(v, "heap"; BinaryHeap<u8>, BinaryHeap<u32>, BinaryHeap<i64>, BinaryHeap<String>, BinaryHeap<(u8, u16)>);
	t!(v; BTreeMap<u8, u8>, BTreeMap<u32, String>, BTreeMap<String, Vec<u8>>, BTreeMap<u16, BTreeMap<u8, u8>>, BTreeMap<u8, Vec<BTreeSet<u16>>>, BTreeMap<(), u8>, BTreeMap<i64, ()>);
	t!(v; BTreeSet<u8>, BTreeSet<u32>, BTreeSet<String>, BTreeSet<(u8, u8)>, BTreeSet<i16>, BTreeSet<Vec<u8>>);
	t!(v, "zst-elem"; BTreeSet<()>, BTreeMap<(), ()>);

	// --- arrays
	t!(v, "prim-arr"; [u8; 0], [u8; 1], [u8; 3], [u8; 32], [u8; 33], [u16; 3], [u32; 32], [u64; 33], [i128; 3], [i8; 7], [i16; 2], [i32; 5], [i64; 1]);
	t!(v, "prim-arr"; [f32; 3], [f64; 1]);
	t!(v, "prim-arr", "huge"; [u8; 1000], [u16; 20000]);
	t!(v; [bool; 2], [(u8, u16); 3], [(); 3], [[u8; 4]; 4], [NonZeroU8; 4]);
	t!(v; [Option<u8>; 3], [Box<u8>; 3], [Arc<u16>; 3], [Compact<u32>; 2]);
	t!(v; [String; 3], [Vec<u8>; 2], [Twin<u32>; 8], [Twin<u8>; 33], [Rc<u64>; 2], [Option<Box<String>>; 2]);

	// --- tuples
	t!(v; (u8,), (u8, u16), (u8, u16, u32), T5, T7, T8, T9, T10, T15, T16, T17);
	t!(v; T4, T14);
	t!(v; T6, T11, T12, T13, T18);
	t!(v; (Vec<u8>,), (Vec<u16>, u8), (BTreeMap<u8, u8>, u8, String), (LinkedList<u8>, u32, u32, u32));

	// --- strings, cows
	t!(v; String, Cow<'static, str>, Cow<'static, [u8]>, Cow<'static, [u32]>, Cow<'static, [String]>, Cow<'static, [(u8, u16)]>);

	// --- pointers
	t!(v, "ptr"; Box<u8>, Box<u32>, Box<[u8; 32]>, Box<[u32; 3]>, Box<(u8, u16)>, Box<()>, Box<Box<u8>>, Box<Box<Box<u16>>>);
	t!(v, "ptr"; Arc<u32>, Arc<[u64; 4]>, Box<Option<Box<u8>>>, Arc<Box<u8>>);
	t!(v, "ptr"; Box<String>, Box<Vec<u8>>, Rc<u32>, Rc<String>, Rc<[u8; 3]>, Arc<Vec<u16>>, Box<[String; 2]>, Rc<Rc<u8>>, Box<Vec<Rc<Vec<Arc<u32>>>>>, Rc<()>, Arc<()>);
	t!(v, "ptr", "huge"; Box<[u16; 20000]>);

	// --- bit sequences
	t!(v, "bits"; BitVec<u8, Lsb0>, BitVec<u8, Msb0>, BitVec<u16, Lsb0>, BitVec<u16, Msb0>, BitVec<u32, Lsb0>, BitVec<u32, Msb0>);
	// 64-bit store words exist on 64-bit targets only
	#[cfg(target_pointer_width = "64")]
	t!(v, "bits"; BitVec<u64, Lsb0>, BitVec<u64, Msb0>, BitBox<u64, Lsb0>, BitBox<u64, Msb0>);
	t!(v, "bits"; BitBox<u8, Lsb0>, BitBox<u8, Msb0>, BitBox<u16, Lsb0>, BitBox<u16, Msb0>, BitBox<u32, Lsb0>, BitBox<u32, Msb0>);
	t!(v, "bits"; Vec<BitVec<u8, Lsb0>>, (BitVec<u16, Msb0>, u8), Option<BitBox<u32, Lsb0>>);

	// --- bytes
	t!(v, "bytes"; Bytes, Vec<Bytes>, Option<Bytes>, (Bytes, Bytes), (u8, Bytes, u16), BTreeMap<u8, Bytes>);

	// --- generic-array (no mem tracking impl)
	t!(v, "garr"; GenericArray<u8, typenum::U0>, GenericArray<u8, typenum::U1>, GenericArray<u8, typenum::U5>, GenericArray<u32, typenum::U5>, GenericArray<String, typenum::U2>, Vec<GenericArray<u16, typenum::U3>>);

	// --- derived
	t!(v, "derived"; SNamed, STuple, SGeneric<u16>, SGeneric<String>, EFields, TNewtypeS, List, Tree, MapRec, SGenCompact<u16>, SGenCompact<u64>);
	t!(v, "derived"; SUnit, SCompact, SEncodedAs, SSkip, SSingle, SAllSkip, EDisc, EBoth, TNewtype, TNewtypeZ, TCompact, TEncAs, TSkip);
	t!(v, "derived"; Compact<Wrapped>);
	t!(v, "derived"; Compact<Narrow>, Vec<Compact<Narrow>>, Option<Compact<Narrow>>, (Compact<Narrow>, u8), [Compact<Narrow>; 3], SNarrow, Vec<SNarrow>);
	t!(v, "derived"; Vec<SNamed>, Option<EFields>, BTreeMap<u8, SCompact>, [STuple; 2], Box<List>, Vec<EDisc>, Vec<EBoth>, Box<TNewtype>, Box<TNewtypeZ>, Box<TNewtypeS>, [TNewtype; 2], Vec<SSingle>, (SSkip, SEncodedAs), Rc<Tree>, Vec<Tree>);
	t!(v, "derived"; Box<TCompact>, [TCompact; 3], Arc<TEncAs>, [TEncAs; 2], Box<TSkip>, [TSkip; 2], Box<SCompact>, Option<EDisc>);

	t!(v, "derived", "ptr"; WrapDefault, Vec<WrapDefault>, Box<WrapDefault>, Option<WrapDefault>);

	// --- zero-sized in memory but not on the wire; fixed-size user types with a non-native format
	t!(v, "derived", "zst-wire"; Only, Vec<Only>, VecDeque<Only>, [Only; 3], [Only; 0], Box<Only>, LinkedList<Only>, Option<Only>, (Only, u8, Only), BTreeMap<u8, Only>, Box<[Only; 2]>, Vec<[Only; 2]>);
	t!(v, "zst-wire"; Marker, Vec<Marker>, VecDeque<Marker>, [Marker; 4], Box<[Marker; 2]>, (u8, Marker), Vec<Option<Marker>>);
	t!(v, "derived", "zst-wire"; TOnlyFirst, Box<TOnlyFirst>, [TOnlyFirst; 2], Arc<TOnlyFirst>, TOnlyLast, Box<TOnlyLast>, [TOnlyLast; 3], Rc<TOnlyLast>, Vec<TOnlyLast>);
	t!(v, "derived", "zst-wire"; TCompactZ, Box<TCompactZ>, [TCompactZ; 2], Rc<TCompactZ>, TEncAsZ, Box<TEncAsZ>, [TEncAsZ; 3], Arc<TEncAsZ>);
	t!(v, "derived", "zst-wire"; TAllZ, Box<TAllZ>, [TAllZ; 2], Rc<TAllZ>, Vec<TAllZ>);
	t!(v, "derived", "ptr"; Shared<u32>, Shared<Vec<u8>>, Shared<Shared<u8>>, Vec<Shared<String>>, WList, Box<WList>, Shared<()>);
	t!(v, "zst-elem"; LinkedList<SAllSkip>, LinkedList<Box<()>>, VecDeque<SAllSkip>, BinaryHeap<Box<()>>);
	t!(v, "custom-fixed"; Vec<BeU32>, [BeU32; 3], Box<[BeU32; 2]>, VecDeque<BeU32>, (BeU32, u8), Vec<[BeU32; 2]>);

	// --- element sizes that do not divide the 16 KiB preallocation window; big elements (few per chunk)
	t!(v, "odd-elem"; Vec<[u8; 3]>, Vec<(u8, u8, u8)>, VecDeque<[u8; 3]>, Vec<[u16; 3]>, Vec<(u8, u32)>, Vec<[u8; 5]>, BinaryHeap<[u8; 3]>, Cow<'static, [[u8; 3]]>);
	t!(v, "big-elem", "huge"; Vec<[u8; 1000]>, Vec<[u64; 300]>, VecDeque<[u8; 1000]>, Vec<([u8; 1000], Vec<u8>)>);
	t!(v, "wide-elem"; Vec<(u64, u64, u64)>, Vec<[u128; 2]>, Vec<T10>, VecDeque<[u32; 8]>, Vec<(Duration, u64)>, LinkedList<[u64; 4]>, BTreeMap<u64, [u8; 32]>);
	t!(v, "heap"; BinaryHeap<Vec<Box<u32>>>, Vec<BinaryHeap<Box<u16>>>, BinaryHeap<Option<u8>>, BinaryHeap<Box<u8>>);

	// --- types that newly gaining a length declaration would be wrong for (probed at compile time)
	t!(v; Box<Option<u8>>, Range<Compact<u64>>, RangeInclusive<Option<u16>>, [Option<bool>; 2], (Compact<u16>, u8), Box<Compact<u32>>, Arc<Option<u32>>);

	// --- deep nesting
	t!(v; Result<Vec<Box<(u8, String)>>, Option<Vec<u8>>>, BTreeMap<String, BTreeMap<u8, Vec<Option<Box<String>>>>>, Vec<(Compact<u32>, Option<(bool, Vec<i32>)>)>, Option<Result<Vec<Vec<u16>>, BTreeSet<u8>>>);

	fn has_heap(t: &monitor::model::Ty, d: u32) -> bool {
		use monitor::model::{SeqKind, Ty};
		if d > 10 {
			return false;
		}
		match t {
			Ty::Seq { kind: SeqKind::Heap, .. } => true,
			Ty::Seq { elem, .. } | Ty::Option(elem) | Ty::Array(elem, _) | Ty::Ptr(elem, _) => has_heap(elem, d + 1),
			Ty::Map(k, x) | Ty::Result(k, x) => has_heap(k, d + 1) || has_heap(x, d + 1),
			Ty::Tuple(ts) => ts.iter().any(|t| has_heap(t, d + 1)),
			Ty::Struct { fields, .. } => fields.iter().any(|f| has_heap(&f.ty, d + 1)),
			Ty::Enum { variants, .. } => variants.iter().any(|v| v.fields.iter().any(|f| has_heap(&f.ty, d + 1))),
			_ => false,
		}
	}
	for o in v.iter_mut() {
		// heaps have no specified element order: such types are compared as multisets
		if has_heap(&o.ty, 0) && !o.has_tag("heap") {
			o.tags.push("heap");
		}
		if o.ty.has_zero_len_elem_seq() && !o.has_tag("zst-elem") {
			o.tags.push("zst-elem");
		}
		if o.ty.is_recursive_named() {
			o.tags.push("recursive");
		}
	}
	v
}

//! C20 probe: replays one deterministic corpus of values and byte strings through whatever
//! feature configuration of parity-scale-codec it was built with and writes a digest log
//! (`type <TAB> kind <TAB> index <TAB> digest`). An offline checker joins the logs of all
//! configurations on the case id. Error descriptions are never part of a digest.
#![allow(dead_code)]

#[path = "../../monitor/src/rng.rs"]
mod rng;
#[path = "../../monitor/src/model.rs"]
mod model;
#[path = "../../monitor/src/gen.rs"]
mod gen;
#[path = "../../monitor/src/report.rs"]
mod report;
#[path = "../../monitor/src/bridge.rs"]
mod bridge;

use bridge::Modelled;
use model::*;
use parity_scale_codec::{Compact, Decode, DecodeAll, DecodeLimit, Encode, OptionBool};
use report::hash64;
use rng::Rng;
use std::collections::{BTreeMap, BTreeSet, BinaryHeap, LinkedList, VecDeque};
use std::fmt::Write as _;
use std::rc::Rc;
use std::sync::Arc;

struct Out {
	log: String,
	cases: u64,
}

/// An input that does not know how much is left (what a stream reader is in a std build; written
/// here so that it exists in every configuration).
struct NoLen<'a>(&'a [u8]);
impl<'a> parity_scale_codec::Input for NoLen<'a> {
	fn remaining_len(&mut self) -> Result<Option<usize>, parity_scale_codec::Error> {
		Ok(None)
	}
	fn read(&mut self, into: &mut [u8]) -> Result<(), parity_scale_codec::Error> {
		if into.len() > self.0.len() {
			return Err("eof".into());
		}
		let (a, b) = self.0.split_at(into.len());
		into.copy_from_slice(a);
		self.0 = b;
		Ok(())
	}
}

fn run_type<T: Modelled + Encode + Decode>(name: &str, seed: u64, nvals: u64, out: &mut Out) {
	let ty = T::ty();
	let mut rng = Rng::new(seed ^ hash64(&name));
	let mut prev: Vec<u8> = Vec::new();
	for i in 0..nvals {
		let raw = {
			let mut g = if i % 3 == 0 { gen::Gen::new(&mut rng) } else { gen::Gen::small(&mut rng) };
			g.val(&ty)
		};
		// value -> bytes through this configuration
		let v = T::from_val(&raw);
		let canon = v.to_val();
		let enc = v.encode();
		let mut to = Vec::new();
		v.encode_to(&mut to);
		let using = v.using_encoded(|b| b.to_vec());
		let _ = writeln!(out.log, "{name}\tenc\t{i}\t{:016x}", hash64(&(&enc, &to, &using, v.encoded_size())));
		out.cases += 1;
		// byte strings -> outcome through this configuration (generated from the model only)
		let (spec, marks) = spec_encode_marks(&ty, &canon);
		let mut strings: Vec<Vec<u8>> = vec![spec.clone()];
		for _ in 0..5 {
			strings.push(gen::mutate(&spec, &marks, &prev, &mut rng).0);
		}
		if let Some((f, _)) = spec_encode_faulty(&ty, &canon, &mut rng) {
			strings.push(f);
		} else {
			strings.push(Vec::new());
		}
		strings.push(gen::random_bytes(&mut rng, 120));
		if !spec.is_empty() {
			strings.push(spec[..spec.len() - 1].to_vec());
		} else {
			strings.push(vec![0]);
		}
		for (j, b) in strings.iter().enumerate() {
			if matches!(spec_decode(&ty, b), Err(Reject::Budget)) {
				let _ = writeln!(out.log, "{name}\tdec\t{i}.{j}\tskipped");
				continue;
			}
			let mut s = &b[..];
			let r = T::decode(&mut s);
			let used = b.len() - s.len();
			let d = match &r {
				Ok(x) => hash64(&(1u8, x.to_val(), used)),
				Err(_) => hash64(&0u8),
			};
			let all = T::decode_all(&mut &b[..]).is_ok();
			// depth-limited decoding at every small limit (which paths count a nesting level must not
			// depend on the configuration), skipping, and an input that cannot tell its length
			let mut lim = 0u32;
			for l in 0..5u32 {
				lim |= (T::decode_with_depth_limit(l, &mut &b[..]).is_ok() as u32) << l;
				lim |= (T::decode_all_with_depth_limit(l, &mut &b[..]).is_ok() as u32) << (8 + l);
			}
			let mut s2 = &b[..];
			let sk = T::skip(&mut s2).is_ok();
			let sk_used = if sk { b.len() - s2.len() } else { 0 };
			let mut nl = NoLen(&b[..]);
			let unk = match T::decode(&mut nl) {
				Ok(x) => hash64(&(1u8, x.to_val(), b.len() - nl.0.len())),
				Err(_) => hash64(&0u8),
			};
			let _ = writeln!(out.log, "{name}\tdec\t{i}.{j}\t{d:016x}{}{lim:04x}{}{sk_used:x}.{:04x}", all as u8, sk as u8, unk & 0xffff);
			out.cases += 1;
		}
		prev = spec;
	}
}

#[cfg(feature = "derive")]
mod derived {
	use super::*;
	use parity_scale_codec::{Decode, Encode};

	#[derive(Encode, Decode)]
	pub struct DS {
		pub a: u8,
		#[codec(compact)]
		pub b: u64,
		#[codec(skip)]
		pub s: u16,
		pub c: Vec<Option<u32>>,
	}
	impl Modelled for DS {
		fn ty() -> Ty {
			Ty::Struct {
				name: "DS".into(),
				fields: vec![FieldTy::plain(Ty::u(1)), FieldTy::as_(Ty::u(8), Ty::Compact { bits: 64 }), FieldTy::skip(Ty::u(2)), FieldTy::plain(<Vec<Option<u32>>>::ty())],
			}
		}
		fn to_val(&self) -> Val {
			Val::Tuple(vec![self.a.to_val(), self.b.to_val(), self.s.to_val(), self.c.to_val()])
		}
		fn from_val(v: &Val) -> Self {
			match v {
				Val::Tuple(x) => DS { a: u8::from_val(&x[0]), b: u64::from_val(&x[1]), s: 0, c: Vec::from_val(&x[3]) },
				_ => panic!(),
			}
		}
	}

	#[derive(Encode, Decode)]
	pub struct Tomb {
		#[codec(skip)]
		pub a: u32,
	}
	impl Modelled for Tomb {
		fn ty() -> Ty {
			Ty::Struct { name: "Tomb".into(), fields: vec![FieldTy::skip(Ty::u(4))] }
		}
		fn to_val(&self) -> Val {
			Val::Tuple(vec![self.a.to_val()])
		}
		fn from_val(_: &Val) -> Self {
			Tomb { a: 0 }
		}
	}

	#[derive(Encode, Decode)]
	pub enum DE {
		#[codec(index = 9)]
		A,
		B(u16, String),
		#[codec(skip)]
		S,
		C {
			x: Box<u32>,
		},
	}
	impl Modelled for DE {
		fn ty() -> Ty {
			Ty::Enum {
				name: "DE".into(),
				variants: vec![
					VariantTy { name: "A".into(), index: 9, skipped: false, fields: vec![] },
					VariantTy { name: "B".into(), index: 1, skipped: false, fields: vec![FieldTy::plain(Ty::u(2)), FieldTy::plain(Ty::Str)] },
					VariantTy { name: "S".into(), index: 0, skipped: true, fields: vec![] },
					VariantTy { name: "C".into(), index: 2, skipped: false, fields: vec![FieldTy::plain(<Box<u32>>::ty())] },
				],
			}
		}
		fn to_val(&self) -> Val {
			match self {
				DE::A => Val::Variant(0, vec![]),
				DE::B(a, b) => Val::Variant(1, vec![a.to_val(), b.to_val()]),
				DE::S => Val::Variant(2, vec![]),
				DE::C { x } => Val::Variant(3, vec![x.to_val()]),
			}
		}
		fn from_val(v: &Val) -> Self {
			match v {
				Val::Variant(0, _) => DE::A,
				Val::Variant(1, x) => DE::B(u16::from_val(&x[0]), String::from_val(&x[1])),
				Val::Variant(3, x) => DE::C { x: Box::from_val(&x[0]) },
				_ => DE::S,
			}
		}
	}
}

/// non-zero-sized type with an empty encoding, hand-written so that it exists in every configuration
#[derive(Clone, Copy, PartialEq, Eq, Debug)]
pub struct Empty32(pub u32);
impl Encode for Empty32 {
	fn encode_to<W: parity_scale_codec::Output + ?Sized>(&self, _dest: &mut W) {}
}
impl Decode for Empty32 {
	fn decode<I: parity_scale_codec::Input>(_: &mut I) -> Result<Self, parity_scale_codec::Error> {
		Ok(Empty32(7))
	}
}
impl Modelled for Empty32 {
	fn ty() -> Ty {
		Ty::Struct { name: "Empty32".into(), fields: vec![] }
	}
	fn to_val(&self) -> Val {
		Val::Tuple(vec![])
	}
	fn from_val(_: &Val) -> Self {
		Empty32(7)
	}
}

/// Decode sequences from ONE input: a decode that may fail followed by further decodes. Only the
/// outcomes (accept/reject, value, bytes consumed on success) enter the digest.
fn run_sequences(seed: u64, n: u64, out: &mut Out) {
	let mut rng = Rng::new(seed ^ 0x5e9);
	for i in 0..n {
		let len = rng.usize_below(12);
		let bytes = gen::random_bytes(&mut rng, len.max(1));
		let mut s = &bytes[..];
		let mut d: Vec<u64> = Vec::new();
		macro_rules! step {
			($t:ty) => {{
				let before = s.len();
				match <$t>::decode(&mut s) {
					Ok(x) => d.push(hash64(&(1u8, x.to_val(), before - s.len()))),
					Err(_) => d.push(0),
				}
			}};
		}
		match i % 4 {
			0 => {
				step!(u32);
				step!(u16);
				step!(u8);
			},
			1 => {
				step!(Vec<u16>);
				step!(Option<u8>);
				step!(u8);
			},
			2 => {
				step!(u64);
				step!(Compact<u32>);
				step!(bool);
				step!(u8);
			},
			_ => {
				step!(String);
				step!((u8, u16));
				step!(u8);
			},
		}
		let _ = writeln!(out.log, "sequence\tdec\t{i}\t{:016x}", hash64(&d));
		out.cases += 1;
	}
}

/// `append_or_new` on valid and invalid starting buffers: accept/reject and resulting bytes.
fn run_appends(seed: u64, n: u64, out: &mut Out) {
	use parity_scale_codec::EncodeAppend;
	let mut rng = Rng::new(seed ^ 0xa99e);
	let fixed: Vec<Vec<u8>> = vec![
		vec![],
		vec![0x00],
		vec![0x01],
		vec![0x01, 0x00],
		vec![0x02, 0x00, 0x01],
		vec![0x03, 0x05, 0x00, 0x00, 0x00],
		vec![0x07, 0x05, 0x00, 0x00, 0x40, 0x01],
		vec![0xff, 1, 2, 3, 4, 5, 6, 7, 8],
		vec![0xfd, 0x00],
		vec![0x13, 0xff, 0xff, 0xff, 0xff, 0xff, 0xff, 0xff, 0xff],
	];
	for i in 0..n {
		let start: Vec<u8> = if (i as usize) < fixed.len() {
			fixed[i as usize].clone()
		} else if i % 3 == 0 {
			gen::random_bytes(&mut rng, 8)
		} else {
			let k = rng.usize_below(70);
			(0..k).map(|x| x as u32).collect::<Vec<u32>>().encode()
		};
		let batch: Vec<u32> = (0..rng.usize_below(5)).map(|x| x as u32 * 7).collect();
		let r1 = <Vec<u32> as EncodeAppend>::append_or_new(start.clone(), &batch);
		let r2 = <VecDeque<u32> as EncodeAppend>::append_or_new(start.clone(), batch.iter());
		let d = hash64(&(r1.as_ref().ok(), r2.as_ref().ok(), r1.is_ok(), r2.is_ok()));
		let _ = writeln!(out.log, "append\tenc\t{i}\t{d:016x}");
		out.cases += 1;
	}
}

/// Bit sequences at the 2^29 limit with the data really present: the count alone decides.
#[cfg(feature = "bit-vec")]
fn run_bit_limit(out: &mut Out) {
	use bitvec::prelude::*;
	for (i, count) in [(1u128 << 29) - 1, 1u128 << 29, (1u128 << 29) + 64].into_iter().enumerate() {
		let mut b = Vec::with_capacity((1 << 26) + 32);
		compact_encode(count, &mut b);
		b.resize(b.len() + (1 << 26) + 16, 0);
		let r = <BitVec<u8, Lsb0>>::decode(&mut &b[..]);
		let _ = writeln!(out.log, "bit-limit\tdec\t{i}\t{}", match r {
			Ok(v) => format!("ok:{}", v.len()),
			Err(_) => "err".to_string(),
		});
		out.cases += 1;
	}
}

fn main() {
	let args: Vec<String> = std::env::args().collect();
	let get = |n: &str| args.iter().position(|a| a == n).and_then(|i| args.get(i + 1).cloned());
	let seed: u64 = get("--seed").and_then(|s| s.parse().ok()).unwrap_or(1);
	let nvals: u64 = get("--values").and_then(|s| s.parse().ok()).unwrap_or(40);
	let outp = get("--out").expect("--out");
	let mut out = Out { log: String::new(), cases: 0 };
	macro_rules! t { ($($t:ty),* $(,)?) => { $( run_type::<$t>(stringify!($t), seed, nvals, &mut out); )* } }
	t!(
		u8, u16, u32, u64, u128, i8, i16, i32, i64, i128, f32, f64, bool, (),
		Compact<u8>, Compact<u16>, Compact<u32>, Compact<u64>, Compact<u128>,
		core::num::NonZeroU8, core::num::NonZeroU32, core::num::NonZeroI64, core::num::NonZeroU128,
		Option<u8>, Option<bool>, OptionBool, Option<String>, Result<u8, String>, Result<Vec<u8>, bool>,
		Vec<u8>, Vec<u16>, Vec<u32>, Vec<u64>, Vec<i128>, Vec<f32>, Vec<bool>, Vec<String>, Vec<Vec<u8>>, Vec<(u8, u16)>, Vec<Option<u32>>, Vec<()>,
		VecDeque<u8>, VecDeque<u32>, VecDeque<String>, LinkedList<u16>, BinaryHeap<u32>,
		BTreeMap<u8, u8>, BTreeMap<u32, String>, BTreeSet<u16>, BTreeSet<String>,
		[u8; 0], [u8; 3], [u8; 32], [u16; 3], [u64; 5], [String; 2], [(u8, bool); 3],
		(u8,), (u8, u16), (u8, String, Vec<u16>), (u8, u16, u32, u64, u128, i8, i16, i32, i64, i128),
		String, std::borrow::Cow<'static, str>, std::borrow::Cow<'static, [u32]>,
		Box<u32>, Box<[u8; 32]>, Box<String>, Rc<Vec<u8>>, Arc<(u8, u16)>, Box<Box<u8>>,
		core::marker::PhantomData<u8>, core::time::Duration, core::ops::Range<u32>, core::ops::RangeInclusive<u8>,
		Vec<Box<(u8, Option<String>)>>, BTreeMap<u8, Vec<BTreeSet<u16>>>, Option<Result<Vec<Vec<u16>>, BTreeSet<u8>>>,
	);
	t!(Empty32, Vec<Empty32>, Option<Vec<Empty32>>, (u8, Vec<Empty32>, u8));
	run_sequences(seed, nvals * 20, &mut out);
	run_appends(seed, nvals * 10, &mut out);
	#[cfg(feature = "bit-vec")]
	run_bit_limit(&mut out);
	#[cfg(feature = "bit-vec")]
	{
		use bitvec::prelude::*;
		t!(BitVec<u8, Lsb0>, BitVec<u8, Msb0>, BitVec<u16, Lsb0>, BitVec<u32, Msb0>, BitVec<u64, Lsb0>, BitBox<u16, Msb0>, Vec<BitVec<u8, Lsb0>>);
	}
	#[cfg(feature = "bytes")]
	{
		t!(bytes::Bytes, Vec<bytes::Bytes>, (u8, bytes::Bytes));
	}
	#[cfg(feature = "generic-array")]
	{
		use generic_array::{typenum, GenericArray};
		t!(GenericArray<u8, typenum::U5>, GenericArray<u32, typenum::U3>, GenericArray<u8, typenum::U0>);
	}
	#[cfg(feature = "derive")]
	{
		t!(derived::DS, derived::DE, Vec<derived::DS>, Option<derived::DE>, derived::Tomb, Vec<derived::Tomb>);
	}
	#[cfg(feature = "max-encoded-len")]
	{
		use parity_scale_codec::MaxEncodedLen;
		let m = [<u8>::max_encoded_len(), <Compact<u128>>::max_encoded_len(), <(u8, Option<u64>)>::max_encoded_len(), <[u16; 7]>::max_encoded_len()];
		let _ = writeln!(out.log, "max_encoded_len\tmel\t0\t{:016x}", hash64(&m));
	}
	// error paths must not change control flow with `chain-error` on or off: a failing nested decode
	let nested = <Vec<Result<Option<String>, u8>>>::decode(&mut &[0x08u8, 0x00, 0x01, 0x08, 0xff, 0xff, 0x01][..]);
	let _ = writeln!(out.log, "nested-error\tdec\t0\t{}", nested.is_err());
	let _ = writeln!(out.log, "#cases\t{}", out.cases);
	std::fs::write(&outp, out.log).expect("write log");
}

#!/usr/bin/env python3
"""Regenerates /verif/MANIFEST.json from lib/props_meta.py (levels, notes) so the two never drift."""
import json, os, sys
ROOT = os.path.dirname(os.path.dirname(os.path.abspath(__file__)))
sys.path.insert(0, os.path.join(ROOT, "lib"))
from props_meta import PROPS
from manifest_text import TEXT, PENDING

props = [json.loads(l) for l in open(os.path.join(ROOT, "properties.jsonl"))]
checks, na = [], []
for p in props:
    pid = p["id"]
    if pid in PROPS and pid in TEXT:
        t = TEXT[pid]
        checks.append(dict(
            property_id=pid,
            quick_cmd=f"./check {pid} --tier quick",
            thorough_cmd=f"./check {pid} --tier thorough",
            evidence_file=f"/verif/evidence/{pid}.json",
            replay_cmd_template=f"./check {pid} --replay {{path}}",
            engine="psc-runtime-monitor",
            level_claimed=dict(category=PROPS[pid]["level"], text=t["text"], design_ref=f"DESIGN.md section 4, {pid}"),
            level_note=t["note"],
            technique=t["technique"],
        ))
    else:
        na.append(dict(property_id=pid, reason=PENDING.get(pid, "check not built yet in this build phase; will be claimed once its monitor runs silently on the unchanged tree")))
m = dict(
    version=1,
    setup_cmd="./check --setup",
    hooks=dict(
        guard="psc_verif",
        enable='RUSTFLAGS="--cfg psc_verif" (set by ./check for every build of the harness and of /repo)',
        baseline_off_cmd="cd /repo && cargo test --workspace --no-fail-fast --offline",
        source_commits=json.load(open(os.path.join(ROOT, "lib", "hook_commits.json"))) if os.path.exists(os.path.join(ROOT, "lib", "hook_commits.json")) else [],
        add_only=True,
    ),
    engines=[dict(name="psc-runtime-monitor", path="/verif/harness", serves_properties=[c["property_id"] for c in checks],
                  kind_free_text="runtime monitoring: reference-model oracles, boundary spies (Input/Output), counting allocator, drop ledger; "
                                 "native overflow-checked runs plus Miri / AddressSanitizer+LeakSanitizer / valgrind memcheck shards; python driver ./check")],
    checks=checks,
    notes="Every verdict is 'held on the executions observed'. Exit 0 = held (KNOWN-FINDING lines possible), 1 = VIOLATION, 2 = INCONCLUSIVE (never folded into the others).",
    not_applicable=na,
)
json.dump(m, open(os.path.join(ROOT, "MANIFEST.json"), "w"), indent=1)
print(f"{len(checks)} checks, {len(na)} not claimed")

"""Per-property metadata for the driver: claimed level, non-triviality rule, assumptions, required
observations and the list of stages (runtime x shards x budget divisor) per tier."""


def native(**kw):
    d = dict(runtime="native")
    d.update(kw)
    return d


def miri(shards=8, slow=200, **kw):
    d = dict(runtime="miri", shards=shards, slow=slow, cpu=3000, wall=3000)
    d.update(kw)
    return d


def asan(shards=16, slow=4, **kw):
    d = dict(runtime="asan", shards=shards, slow=slow)
    d.update(kw)
    return d


def valgrind(shards=16, slow=40, **kw):
    d = dict(runtime="valgrind", shards=shards, slow=slow, cpu=3000, wall=3600)
    d.update(kw)
    return d


COMMON_ASSUMPTIONS = [
    "the reference model (harness/monitor/src/model.rs) is a faithful transcription of the SCALE format as stated in the property",
    "the bridge impls (harness/monitor/src/bridge.rs, harness/props/src/derived.rs) state the schema of each type correctly",
    "verdicts cover the executions produced by this run only (type universe x generated values / byte strings for this seed)",
]

PROPS = {}

PROPS["C01"] = dict(
    level="exploration",
    rule="boundary-biased generated values of every universe type plus borrowed/unsized forms and bit slices at every head offset; "
         "a case is the pair (type, specification bytes); non-trivial = encoding of at least 2 bytes; distinct = hash set of (type, bytes), "
         "shards own disjoint types so per-shard counts add up",
    assumptions=COMMON_ASSUMPTIONS + ["BinaryHeap element order is unspecified: heaps are compared as multisets of the decoded bytes"],
    required=[("types_exercised", 200), ("borrowed_forms", 1000), ("bitslice_offsets", 100)],
    stages=lambda tier: [native()] + ([
        miri(runtime="miri-s390x", name="miri-s390x", shards=8, slow=600),
        miri(runtime="miri-i686", name="miri-i686", shards=8, slow=600),
    ] if tier == "thorough" else []),
)

PROPS["C02"] = dict(
    level="exploration",
    rule="generated values x trailing suffixes (0, 1, 7, look-alike, 40/4096 random bytes), decoded from a native slice and from a spy input; "
         "non-trivial = encoding of at least 2 bytes; distinct = hash set of (type, encoding, suffix length)",
    assumptions=COMMON_ASSUMPTIONS,
    required=[("types_exercised", 200), ("spy_reads", 1000)],
    stages=lambda tier: [native(), miri(shards=8, slow=400 if tier == "quick" else 3000)] + ([
        asan(), valgrind(slow=60),
        miri(runtime="miri-s390x", name="miri-s390x", shards=8, slow=6000),
        miri(runtime="miri-i686", name="miri-i686", shards=8, slow=6000),
    ] if tier == "thorough" else []),
)

PROPS["C03"] = dict(
    level="exploration",
    rule="byte strings per decodable type: valid encodings, 10 mutations each (bit flip, special byte, truncate, extend, splice, insert, delete, "
         "count tamper), every truncation of short encodings, every count prefix tampered, grammar-aware single faults, random strings, and "
         "ALL strings up to 2 (quick) / 3 (thorough) bytes for 37 small-alphabet types; non-trivial = non-empty string the decoder had to "
         "judge (accepted with >= 1 byte consumed, or rejected); distinct = hash set of (type, bytes)",
    assumptions=COMMON_ASSUMPTIONS + [
        "non-termination is restated as bounded progress: each shard runs under RLIMIT_CPU; exceeding it is reported as a violation",
        "inputs whose model decode needs more than 10^6 element steps (huge counts over elements with empty encodings) are skipped and counted",
    ],
    exhaustive_note="all byte strings of length <= 2 (quick) / <= 3 (thorough) for the listed small-alphabet types are enumerated completely "
                    "(counter exhaustive_strings); everything else is sampled",
    required=[("types_exercised", 200), ("exhaustive_strings", 60000), ("rejected:bad-tag", 10), ("rejected:bad-variant", 10),
              ("rejected:bad-utf8", 10), ("rejected:zero-nonzero", 10), ("rejected:nanos", 1), ("rejected:non-canonical-compact", 10),
              ("rejected:over-wide-compact", 10), ("rejected:too-many-bits", 10), ("rejected:eof", 10), ("accepted", 1000)],
    stages=lambda tier: [native(), native(runtime="release", name="release", slow=2)] + ([
        asan(slow=8), miri(shards=8, slow=4000),
    ] if tier == "thorough" else []),
)

"""Per-property metadata for the driver: claimed level, non-triviality rule, assumptions, required
observations and the list of stages (runtime x shards x budget divisor) per tier."""


def native(**kw):
    d = dict(runtime="native")
    d.update(kw)
    return d


def miri(shards=16, values=2, **kw):
    """values = explicit per-type budget; slow=100 only tells the workload to pick its small variants"""
    d = dict(runtime="miri", shards=shards, slow=100, values=values, cpu=6000, wall=6000)
    d.update(kw)
    return d


def asan(shards=16, values=200, **kw):
    d = dict(runtime="asan", shards=shards, slow=4, values=values)
    d.update(kw)
    return d


def valgrind(shards=16, values=50, **kw):
    d = dict(runtime="valgrind", shards=shards, slow=40, values=values, cpu=6000, wall=7200)
    d.update(kw)
    return d


COMMON_ASSUMPTIONS = [
    "the reference model (harness/monitor/src/model.rs) is a faithful transcription of the SCALE format as stated in the property",
    "the bridge impls (harness/monitor/src/bridge.rs, harness/props/src/derived.rs) state the schema of each type correctly",
    "verdicts cover the executions produced by this run only (type universe x generated values / byte strings for this seed)",
]

PROPS = {}

PROPS["C01"] = dict(
    level="exploration",
    rule="boundary-biased generated values of every universe type plus borrowed/unsized forms and bit slices at every head offset; "
         "a case is the pair (type, specification bytes); non-trivial = encoding of at least 2 bytes; distinct = hash set of (type, bytes), "
         "shards own disjoint types so per-shard counts add up",
    assumptions=COMMON_ASSUMPTIONS + ["BinaryHeap element order is unspecified: heaps are compared as multisets of the decoded bytes"],
    required=[("types_exercised", 200), ("borrowed_forms", 1000), ("bitslice_offsets", 100)],
    stages=lambda tier: [native(),
                         miri(runtime="miri-s390x", name="miri-s390x", shards=32, values=1 if tier == "quick" else 25),
                         miri(runtime="miri-i686", name="miri-i686", shards=32, values=1 if tier == "quick" else 25)],
)

PROPS["C02"] = dict(
    level="exploration",
    rule="generated values x trailing suffixes (0, 1, 7, look-alike, 40/4096 random bytes), decoded from a native slice and from a spy input; "
         "non-trivial = encoding of at least 2 bytes; distinct = hash set of (type, encoding, suffix length)",
    assumptions=COMMON_ASSUMPTIONS,
    required=[("types_exercised", 200), ("spy_reads", 1000)],
    stages=lambda tier: [native(), miri(shards=32, values=2 if tier == "quick" else 40), asan(values=300 if tier == "quick" else 4000),
                         valgrind(values=4 if tier == "quick" else 400)] + ([
        miri(runtime="miri-s390x", name="miri-s390x", values=8),
        miri(runtime="miri-i686", name="miri-i686", values=8),
    ] if tier == "thorough" else []),
)

def fuzz_aux(pid, tier, quick=20, thorough=600):
    """coverage-guided workload: libFuzzer drives the per-input oracle group of `pid` in harness/fuzz/fuzz_targets/decode_aux.rs"""
    return dict(runtime="fuzz", name="fuzz", target="decode_aux", env={"VERIF_FUZZ_PROP": pid}, seconds=quick if tier == "quick" else thorough)


FUZZ_RULE = ("; plus a coverage-guided stage: libFuzzer (16 forks, ASan build) chooses type and byte string, the same per-input rules judge "
             "each execution (counters fuzz_executions / fuzz_coverage_edges / fuzz_corpus_new_inputs)")

PROPS["C03"] = dict(
    level="exploration",
    rule="byte strings per decodable type: valid encodings, 10 mutations each (bit flip, special byte, truncate, extend, splice, insert, delete, "
         "count tamper), every truncation of short encodings, every count prefix tampered, grammar-aware single faults, random strings, and "
         "ALL strings up to 2 (quick) / 3 (thorough) bytes for 37 small-alphabet types; non-trivial = non-empty string the decoder had to "
         "judge (accepted with >= 1 byte consumed, or rejected); distinct = hash set of (type, bytes)",
    assumptions=COMMON_ASSUMPTIONS + [
        "non-termination is restated as bounded progress: each shard runs under RLIMIT_CPU; exceeding it is reported as a violation",
        "inputs whose model decode needs more than 10^6 element steps (huge counts over elements with empty encodings) are skipped and counted",
    ],
    exhaustive_note="all byte strings of length <= 2 (quick) / <= 3 (thorough) for the listed small-alphabet types are enumerated completely "
                    "(counter exhaustive_strings); everything else is sampled",
    required=[("types_exercised", 200), ("exhaustive_strings", 60000), ("rejected:bad-tag", 10), ("rejected:bad-variant", 10),
              ("rejected:bad-utf8", 10), ("rejected:zero-nonzero", 10), ("rejected:nanos", 1), ("rejected:non-canonical-compact", 10),
              ("rejected:over-wide-compact", 10), ("rejected:too-many-bits", 10), ("rejected:eof", 10), ("accepted", 1000), ("fuzz_executions", 100000)],
    stages=lambda tier: [native(), native(runtime="release", name="release", slow=2), asan(values=60 if tier == "quick" else 800, args=["--mode", "sampled-only"]),
                         dict(runtime="fuzz", name="fuzz", seconds=45 if tier == "quick" else 900)] + ([
        miri(shards=64, values=3, args=["--mode", "sampled-only"]),
    ] if tier == "thorough" else []),
)

PROPS["C04"] = dict(
    level="exploration",
    rule="compact integers of width 8/16/32/64/128: all u8/u16 values, u32 values (stride 7 quick, ALL 2^32 thorough), class boundaries +-4096, "
         "values with at most two non-zero byte lanes, random values; byte strings: every (first byte x top byte x fill x cut length), all 2-byte "
         "strings, four-byte mode payloads (stride 7 / ALL 2^30) and 4-byte big-integer payloads (stride 13 / ALL 2^32), random / canonical+suffix / "
         "truncated strings, each judged by all five decoders; every enumerated case is distinct by construction and counted as such, random cases "
         "through a hash set; all are non-trivial (each compares real against the arithmetic model)",
    assumptions=["the arithmetic model compact_encode/compact_decode in harness/monitor/src/model.rs is the definition quoted in the property"],
    exhaustive_note="quick: all u8/u16 values, all byte strings of length <= 2, the full (tag x top byte x fill x length) grid. thorough additionally: "
                    "all 2^32 u32 values, all 2^30 four-byte-mode payloads for the 16/32-bit decoders, all 2^32 five-byte big-integer strings for the "
                    "32-bit decoder (counters *_exhaustive)",
    required=[("values_u16_exhaustive", 65536), ("strings_len2_exhaustive", 65536), ("strings_tag_top_len", 100000), ("values_boundary", 1000)],
    stages=lambda tier: [native(cpu=3000)],
)

PROPS["C07"] = dict(
    level="exploration",
    rule="(1) generated values of every universe type through encode / encode_to(Vec) / encode_to(dyn Output spy) / encode_to(short-writing io::Write) / "
         "using_encoded / encoded_size; (2) twelve primitive element types x lengths 0..40 and around 1x,2x,3x 16 KiB/size x {Vec, slice, wrapped VecDeque, "
         "arrays 0/1/32/33} against an element-wise twin, bytes and decode outcomes on valid/truncated/flipped/extended strings; non-trivial = encoding "
         "of at least 2 bytes; distinct = hash set of (type or element type, bytes)",
    assumptions=COMMON_ASSUMPTIONS + ["which path ran is read off the Output chunk trace / Input read trace: bulk = few large requests, element-wise = at least one request per element"],
    required=[("types_exercised", 200), ("prims_with_bulk_write_and_read_observed", 12), ("array_cases", 100), ("elementwise_decode_differentials", 10000)],
    stages=lambda tier: [native(), miri(shards=12, values=1, args=["--mode", "bulk-only"]), asan(values=150 if tier == "quick" else 2000),
                         valgrind(shards=12, values=1, args=["--mode", "bulk-only"], name="valgrind-bulk")] + ([
        valgrind(values=100), miri(values=6, name="miri-entry-points"),
        miri(runtime="miri-s390x", name="miri-s390x", shards=12, values=1, args=["--mode", "bulk-only"]),
    ] if tier == "thorough" else []),
)

PROPS["C08"] = dict(
    level="exploration",
    rule="byte strings (valid, 4 mutations, truncation, 2 random) per decodable type, decoded from the plain slice (reference) and from 5 base inputs "
         "(spy with known length, unknown length, IoReader<Cursor>, IoReader over a 1..9-byte short reader with Interrupted errors, &[u8]) under the "
         "empty wrapper word plus 3 random words over {CountedInput, depth-limit(MAX), mem-limit(MAX)}* of length <= 3, and from decode_from_bytes; "
         "non-trivial = non-empty string; distinct = hash set of (type, bytes)" + FUZZ_RULE,
    assumptions=COMMON_ASSUMPTIONS + ["only success/failure, value and bytes consumed on success are compared; error texts and consumption on failure are not"],
    required=[("fuzz_executions", 20000), ("types_exercised", 200), ("distinct_stacks_seen", 150), ("zero_copy_observed", 50), ("accepted", 1000), ("rejected", 1000)],
    stages=lambda tier: [native()] + ([miri(shards=64, values=2)] if tier == "thorough" else []) + [asan(values=25 if tier == "quick" else 300), fuzz_aux("C08", tier)],
)

PROPS["C10"] = dict(
    level="fault_enumeration",
    rule="for each of ~65 containers over an instrumented element type (arrays, Box/Rc/Arc, growing collections, tuples, derived struct/enum, "
         "repr(transparent) newtypes, zero-sized elements, nested two deep) and several all-success inputs: EVERY element index x {malformed, panic}, "
         "EVERY cut point (input exhausted), EVERY input request x {error, panic}, EVERY announced allocation as the one that trips the memory limit, "
         "EVERY depth limit 0..=max; after each case the construction/drop ledger must balance. Non-trivial = at least one element had been "
         "constructed when the fault hit; distinct = hash set of (type, input bytes, fault)",
    assumptions=["the ledger sees instances of the instrumented element only; raw allocations made by the crate itself are watched by Miri, "
                 "LeakSanitizer / AddressSanitizer (quick and thorough) and valgrind (thorough)"],
    exhaustive_note="the fault grid per (container, all-success input) is enumerated completely; containers and inputs are a finite chosen list",
    required=[("types_exercised", 70), ("fault_after_construction:malformed-element", 100), ("fault_after_construction:panic-in-element", 100),
              ("fault_after_construction:exhausted", 100), ("fault_after_construction:panic-in-input", 100), ("fault_after_construction:mem-limit", 20),
              ("fault_after_construction:depth-limit", 5), ("success_runs", 100)],
    stages=lambda tier: [native(), miri(shards=32, values=3 if tier == "quick" else 30), asan(values=150 if tier == "quick" else 1500)] + ([valgrind(values=50)] if tier == "thorough" else []),
)

PROPS["C14"] = dict(
    level="exploration",
    rule="(1) every strict prefix (all cut points up to 512 bytes, sampled + structure boundaries beyond) of real encodings, through a slice and through "
         "IoReader over a short reader; (2) concatenations of 2..50 values of mixed types decoded value by value from one input (known length, unknown "
         "length, IoReader); (3) decode_all / decode_all_with_depth_limit(MAX) against decode + 'no input left' on valid, mutated, truncated and random "
         "strings; non-trivial = encoding / concatenation of at least 2 bytes; distinct = hash set of (type, bytes)" + FUZZ_RULE,
    assumptions=COMMON_ASSUMPTIONS,
    required=[("fuzz_executions", 20000), ("types_exercised", 200), ("prefixes", 10000), ("concatenations", 100), ("consume_all_accepted", 100), ("consume_all_rejected_trailing", 100)],
    stages=lambda tier: [native(), fuzz_aux("C14", tier)],
)

PROPS["C18"] = dict(
    level="exploration",
    rule="(1) DecodeLength::len on the real encoding of every generated value of the collection types and of tuples led by one (capability probed at "
         "compile time), plus count-only encodings through all four compact modes up to 2^32-1; (2) skip vs decode on valid, mutated, truncated and "
         "random strings of every decodable type, comparing success and input position; non-trivial = non-empty input; distinct = hash set of (type, bytes)" + FUZZ_RULE,
    assumptions=COMMON_ASSUMPTIONS,
    required=[("fuzz_executions", 20000), ("types_exercised", 200), ("len_peeks", 1000), ("len_peeks:mode2", 10), ("len_peeks_count_only", 50), ("skip_on_accepted", 1000), ("skip_on_rejected", 1000)],
    stages=lambda tier: [native(), fuzz_aux("C18", tier)],
)

PROPS["C19"] = dict(
    level="exploration",
    rule="decodes of valid, mutated, truncated and random strings of every decodable type through CountedInput over a spy input, (a) plain, (b) with an "
         "injected inner failure at request 0..5, (c) started near u64::MAX through the guarded hook; count() is compared with the spy's delivered "
         "bytes after EVERY request (step checker above the counter) and at the end; non-trivial = non-empty input; distinct = hash set of (type, bytes, variant)" + FUZZ_RULE,
    assumptions=COMMON_ASSUMPTIONS + ["saturation is only reachable through the hook CountedInput::verif_with_count (cfg psc_verif)"],
    required=[("fuzz_executions", 20000), ("types_exercised", 200), ("requests_checked", 100000), ("after_success", 1000), ("after_failure", 1000), ("cases_with_failed_reads", 1000),
              ("saturated_cases", 1000), ("hook_available", 1)],
    stages=lambda tier: [native(), fuzz_aux("C19", tier)],
)

PROPS["C09"] = dict(
    level="exploration",
    rule="per container type: generated values, and for each count-prefix position (up to 5) hostile twins that differ only in the claimed count "
         "(2^31 vs 2^32-1; 2^28 vs 2^29-1 for bit sequences; 2^14 vs 2^18 where elements may encode to nothing) x payloads {none, original tail, "
         "16-64 KiB of repeated plausible elements} x inputs {slice, unknown length, decode_from_bytes}; each decode is bracketed by the counting "
         "allocator (peak live bytes, largest single request). Non-trivial = hostile input whose claimed count exceeds what the payload can deliver; "
         "distinct = hash set of (type, input bytes, input kind)",
    assumptions=["oracle A (count independence): peak and largest request for the larger claimed count may exceed those for the smaller by at most 4 KiB",
                 "oracle B (absolute): peak <= 16*alpha*delivered + levels*80 KiB + 8*size_of(T) + 8 KiB with alpha = max over container levels of "
                 "element memory / minimal element encoding; kept because the honest+hostile corpus stays below 25% of it (worst ratio in the evidence)",
                 "the counting allocator sees every heap request of the process; each shard is single-threaded"],
    required=[("types_exercised", 100), ("hostile_pairs", 5000), ("hostile_rejected", 3000), ("via:Unknown", 1000), ("via:Shared", 1000),
              ("hostile:bits", 100), ("hostile:str", 100), ("calibration_runs", 1), ("plausible_count_cases", 5000), ("nested_plausible_cases", 18)],
    stages=lambda tier: [native(), native(runtime="release", name="release", slow=2)],
)

PROPS["C11"] = dict(
    level="exploration",
    rule="values of every decodable universe type (nesting Vec/Box/Rc/Arc/maps/sets/lists/deques/heaps/options/tuples, recursive derived types) x EVERY "
         "limit 0..=depth_hi+2 through the native entry points and through wrapper layers between limiter and decoder, observed by a spy; hostile "
         "strings x limits {0,1,2,3,MAX}; inputs nested 10^3..10^6 levels on a 2 MiB stack (release build). Non-trivial = value with container "
         "nesting depth >= 2 (or a deep-nesting case); distinct = hash set of (type, bytes)" + FUZZ_RULE,
    assumptions=COMMON_ASSUMPTIONS + [
        "depth_hi = longest chain of nested heap containers in the value; depth_lo = longest chain of nested NON-EMPTY containers whose contents are "
        "decoded element by element (strings, bit sequences, byte buffers and vectors / deques / heaps of primitive integers or floats are decoded as "
        "one block and count as leaves): the property is read as 'element decoders are entered through more than L container levels', the reading "
        "under which the crate's own documented test (4-level Vec<Vec<Vec<Vec<u8>>>> decodes with limit 3) satisfies it; the verdict uses only "
        "depth_lo <= threshold <= depth_hi",
        "stack safety is observed on a fixed 2 MiB stack in the optimised build; a stack overflow kills the child and is attributed to the last case"],
    required=[("fuzz_executions", 20000), ("types_exercised", 200), ("limit_sweeps", 50000), ("limited_ok", 10000), ("limited_err", 5000), ("deep_cases", 48), ("deep_rejected", 36), ("deep_ok", 5)],
    stages=lambda tier: [native(), native(runtime="release", name="release-deep", shards=7, args=["--mode", "deep"], mem_gb=4), fuzz_aux("C11", tier)],
)

PROPS["C12"] = dict(
    level="fault_enumeration",
    rule="values of every DecodeWithMemTracking universe type (capability probed at compile time): tracked usage U measured through "
         "MemTrackingInput(MAX) over a spy (hook conservation), then EVERY limit 0..=U+1 when U <= 4096 (each limit makes a different allocation the "
         "failing one) and {0,1,U/2,U-1,U,U+1,2U,MAX} otherwise through decode_with_mem_limit, plus binding limits under/above other wrappers and "
         "hostile strings x limits {0,1,64,4096,MAX}; U compared with the logical heap payload computed from the value by the bridge. "
         "Non-trivial = value with U > 0; distinct = hash set of (type, bytes)" + FUZZ_RULE,
    assumptions=COMMON_ASSUMPTIONS + [
        "payload = len*size_of(elem) for Vec/VecDeque/BinaryHeap/LinkedList/Cow<[T]>, size_of(T) for Box/Rc/Arc, byte length for String/Bytes, store bytes "
        "for bit sequences, summed over nesting (exact part) + len*size_of((K,V)) for tree maps/sets (tree part); demanded: U >= exact + tree/2, and U = 0 "
        "when the value owns no heap object"],
    exhaustive_note="for every value with U <= 4096 the limit sweep 0..=U+1 is complete",
    required=[("fuzz_executions", 20000), ("types_exercised", 180), ("limit_sweeps", 100000), ("values_with_positive_usage", 5000), ("values_with_zero_usage", 1000),
              ("stacked_limits", 1000), ("saturation_cases", 1), ("hostile_limited", 10000)],
    stages=lambda tier: [native(), fuzz_aux("C12", tier)],
)

import derive_runner  # noqa: E402

PROPS["C05"] = dict(
    level="exploration",
    rule="generated type definitions over the derive attribute grammar (named/tuple/unit structs, enums with index attributes / explicit discriminants "
         "/ positions / skipped variants incl. all-variants-skipped and empty enums, skip / compact / encoded_as fields, generics with and without "
         "HasCompact bounds and skip_type_params, repr(transparent) newtypes, single-non-skipped-field structs, CompactAs newtypes, nesting) each with "
         "a schema computed from the definition text; per type: skipped variants encode to nothing, generated values encode to the declared "
         "concatenation through all entry points and decode back, hostile strings (mutations, single faults, every leading byte) agree with the "
         "schema's decoder. Non-trivial = value / string of at least 2 bytes of a definition; distinct = hash set of (type, bytes)",
    assumptions=COMMON_ASSUMPTIONS + ["the program generator (derivelab/gen.py) emits only definitions inside the documented attribute grammar; a generated "
                                      "definition that fails to compile is reported only when rustc's diagnostics point into the definition itself",
                                      "'always terminates' is restated as: the generated program finishes within its CPU budget and does not overflow an 8 MiB stack"],
    required=[("generated_definitions", 100), ("skipped_variant_encodes", 5), ("unknown_index_rejected", 100), ("hostile_strings", 10000), ("types_exercised", 100)],
    custom=derive_runner.c05_custom,
)

PROPS["C06"] = dict(
    level="exploration",
    rule="construction histories: random op sequences (push/pop both ends, rotate, make_contiguous, reserve, shrink, truncate, extend, drain, insert) on "
         "VecDeque and Vec over 16 element types (every primitive included), String capacity histories, ALL insertion orders of up to 6 map/set keys and "
         "random insert/remove histories up to 2000 keys, LinkedList push/pop/split_off/append, bit sequences at EVERY head offset x length 0..130 x "
         "8 store/order combinations plus push/pop/truncate/split_off/drain/shift/insert histories, and 13 holder forms (&, &&, &mut, Box, Rc, Arc, Cow "
         "borrowed/owned, Ref, ...) over 20 types; each state encodes like the freshly built equal value and like the specification, twice. "
         "Non-trivial = encoding of at least 2 bytes; distinct = hash set of (type, bytes, layout signature or history)",
    assumptions=COMMON_ASSUMPTIONS + ["BinaryHeap is excluded: its iteration order legitimately depends on history and the property does not list it"],
    required=[("deque_types_with_wrapped_states", 17), ("holder_sequence_cases", 5000), ("deque_layout_signatures", 500), ("map_permutations", 800), ("map_histories", 50),
              ("list_histories", 100), ("bit_offset_length_cases", 10000), ("bit_histories", 500), ("holder_cases", 2000), ("vec_histories", 500), ("string_histories", 100)],
    stages=lambda tier: [native()] + ([miri(shards=32, values=4)] if tier == "thorough" else []),
)

PROPS["C13"] = dict(
    level="exploration",
    rule="every universe type that declares a maximum / constant encoded length or reports a fixed encoded size (capabilities probed at compile time, "
         "so newly marked types are picked up): the schema's longest value plus boundary-biased generated values; and generated derive(MaxEncodedLen) "
         "definitions with compact / encoded_as / skip fields, skipped variants and generic parameters. Non-trivial = encoding of at least 2 bytes; "
         "distinct = hash set of (type, bytes)",
    assumptions=COMMON_ASSUMPTIONS + ["the verdict is always a concrete value encoding longer than declared (or unequal for constant / fixed); the schema maximum only picks witnesses"],
    required=[("types_with_declared_max", 150), ("types_marked_constant", 60), ("types_with_fixed_size", 15), ("max_witnesses", 150), ("bound_attained", 1000), ("generated_definitions", 100)],
    custom=derive_runner.c13_custom,
)

PROPS["C15"] = dict(
    level="exploration",
    rule="histories of append_or_new calls checked against an executable model (a plain Vec extended by each batch and re-encoded by the specification "
         "encoder): 16 item types incl. zero-sized and derived, Vec and VecDeque targets, 5 item forms (value, &T, Box<T>, Ref, slice), batch sizes "
         "0..70, start states empty input / existing sequence near the 63|64 boundary; count-only (zero-sized item) cases on and around 64, 2^14, "
         "2^30 and 2^32 including batches longer than 2^32; real-payload width changes at 64 and 2^14 (1 GiB payload at 2^30 in thorough); inputs "
         "that do not begin with a valid count. Non-trivial = history with at least 2 items appended; distinct = hash set of (item type, history, bytes)",
    assumptions=["the model is the property's own statement: result == encode(original ++ items)"],
    required=[("appends", 5000), ("histories_with_two_or_more_appends", 500), ("boundary_cases", 100), ("boundary_overflow_rejected", 5),
              ("invalid_prefix_rejected", 14), ("item_types", 20)],
    stages=lambda tier: [native()] + ([native(runtime="release", name="release-1gib", shards=1, args=["--mode", "gib"], mem_gb=0)] if tier == "thorough" else []),
)

PROPS["C16"] = dict(
    level="exploration",
    rule="for each declared EncodeLike family (the generic checker's trait bound A: EncodeLike<B> makes an undeclared pair a compile error): generated "
         "values converted A -> B; bytes of A must equal bytes of B and, where B is decodable, decode as B to the corresponding value. ~75 families: "
         "references, Box/Rc/Arc/Cow both directions, string / byte-buffer aliases, Vec/slice/VecDeque (wrapped) aliases, map/set/list/heap vs slices of "
         "tuples, Option/Result/array/tuple (1,2,3,10,18) aliases, Compact/CompactRef, Ref and &Ref, bit types, GenericArray, derive-generated self "
         "impls, nested compositions. Non-trivial = encoding of at least 2 bytes; distinct = hash set of (family, bytes)",
    assumptions=["slices of tuples are compared with maps/sets only in the collection's own order; heaps as multisets",
                 "completeness is audited statically: impl headers mentioning EncodeLike in /repo/src are counted and compared with the recorded list "
                 "(lib/encode_like_impls.txt); unknown ones are listed as UNAUDITED in the evidence, not judged"],
    required=[("decoded_as_b", 1000), ("wrapped_deques", 50)],
    stages=lambda tier: [native()],
    post="encode_like_audit",
)

PROPS["C17"] = dict(
    level="exploration",
    rule="generated definitions deriving Encode and Decode, judged by a reference model of the index / attribute rules against rustc's JSON diagnostics "
         "(errors attributed through span expansion chains to the definition's lines): forced collisions for every pair of index sources at 6 "
         "positions with repaired twins, indices above 255 by attribute / discriminant, 400 (quick) / 5000 (thorough) random enums with indices "
         "0..=300 from all sources and skips, all small enums (thorough), 56 attribute-conflict placements with single-attribute twins, unions, "
         "CompactAs shapes, 256/257/300 variant enums. Non-trivial = definition with an attribute or at least 2 variants; distinct = by definition text",
    assumptions=["a definition is 'rejected with a diagnostic' when rustc emits an error whose span (or macro expansion chain) lies inside the definition",
                 "valid and faulty definitions are compiled in separate crates; every disagreement is re-compiled alone before it is reported",
                 "the generator keeps every enum valid at the Rust level (distinct discriminants), so rejections are the macros' own"],
    required=[("faulty_definitions", 150), ("valid_definitions", 200), ("faulty_rejected_with_attributed_error", 150), ("valid_compiled_clean", 200)],
    custom=derive_runner.c17_custom,
)

import c20  # noqa: E402

PROPS["C20"] = dict(
    level="exploration",
    rule="one probe source built per feature configuration (3 bases: default std+chain-error / no default features / no_std+chain-error) x optional "
         "sets (none, all; thorough: each of bit-vec, bytes, generic-array, max-encoded-len, derive alone); each binary replays the same seeded "
         "corpus (values -> digest of encode / encode_to / using_encoded / encoded_size; valid, mutated, faulty, random, truncated strings -> digest "
         "of accept/reject, value, consumed, decode_all, depth-limited) for every type available in that configuration; an offline checker joins the "
         "logs on case id. Non-trivial and distinct = case ids present in at least 2 configuration logs",
    assumptions=["error descriptions are excluded from digests by construction", "the corpus generator is the harness's own model code, identical in every build"],
    required=[("configurations_built", 6), ("cases_compared_across_configurations", 20000)],
    custom=c20.c20_custom,
)

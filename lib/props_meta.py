"""Per-property metadata for the driver: claimed level, non-triviality rule, assumptions, required
observations and the list of stages (runtime x shards x budget divisor) per tier."""


def native(**kw):
    d = dict(runtime="native")
    d.update(kw)
    return d


def miri(shards=8, slow=200, **kw):
    d = dict(runtime="miri", shards=shards, slow=slow, cpu=3000, wall=3000)
    d.update(kw)
    return d


def asan(shards=16, slow=4, **kw):
    d = dict(runtime="asan", shards=shards, slow=slow)
    d.update(kw)
    return d


def valgrind(shards=16, slow=40, **kw):
    d = dict(runtime="valgrind", shards=shards, slow=slow, cpu=3000, wall=3600)
    d.update(kw)
    return d


COMMON_ASSUMPTIONS = [
    "the reference model (harness/monitor/src/model.rs) is a faithful transcription of the SCALE format as stated in the property",
    "the bridge impls (harness/monitor/src/bridge.rs, harness/props/src/derived.rs) state the schema of each type correctly",
    "verdicts cover the executions produced by this run only (type universe x generated values / byte strings for this seed)",
]

PROPS = {}

PROPS["C01"] = dict(
    level="exploration",
    rule="boundary-biased generated values of every universe type plus borrowed/unsized forms and bit slices at every head offset; "
         "a case is the pair (type, specification bytes); non-trivial = encoding of at least 2 bytes; distinct = hash set of (type, bytes), "
         "shards own disjoint types so per-shard counts add up",
    assumptions=COMMON_ASSUMPTIONS + ["BinaryHeap element order is unspecified: heaps are compared as multisets of the decoded bytes"],
    required=[("types_exercised", 200), ("borrowed_forms", 1000), ("bitslice_offsets", 100)],
    stages=lambda tier: [native()] + ([
        miri(runtime="miri-s390x", name="miri-s390x", shards=8, slow=600),
        miri(runtime="miri-i686", name="miri-i686", shards=8, slow=600),
    ] if tier == "thorough" else []),
)

PROPS["C02"] = dict(
    level="exploration",
    rule="generated values x trailing suffixes (0, 1, 7, look-alike, 40/4096 random bytes), decoded from a native slice and from a spy input; "
         "non-trivial = encoding of at least 2 bytes; distinct = hash set of (type, encoding, suffix length)",
    assumptions=COMMON_ASSUMPTIONS,
    required=[("types_exercised", 200), ("spy_reads", 1000)],
    stages=lambda tier: [native(), miri(shards=16, slow=600 if tier == "quick" else 60)] + ([
        asan(), valgrind(slow=60),
        miri(runtime="miri-s390x", name="miri-s390x", shards=8, slow=6000),
        miri(runtime="miri-i686", name="miri-i686", shards=8, slow=6000),
    ] if tier == "thorough" else []),
)

PROPS["C03"] = dict(
    level="exploration",
    rule="byte strings per decodable type: valid encodings, 10 mutations each (bit flip, special byte, truncate, extend, splice, insert, delete, "
         "count tamper), every truncation of short encodings, every count prefix tampered, grammar-aware single faults, random strings, and "
         "ALL strings up to 2 (quick) / 3 (thorough) bytes for 37 small-alphabet types; non-trivial = non-empty string the decoder had to "
         "judge (accepted with >= 1 byte consumed, or rejected); distinct = hash set of (type, bytes)",
    assumptions=COMMON_ASSUMPTIONS + [
        "non-termination is restated as bounded progress: each shard runs under RLIMIT_CPU; exceeding it is reported as a violation",
        "inputs whose model decode needs more than 10^6 element steps (huge counts over elements with empty encodings) are skipped and counted",
    ],
    exhaustive_note="all byte strings of length <= 2 (quick) / <= 3 (thorough) for the listed small-alphabet types are enumerated completely "
                    "(counter exhaustive_strings); everything else is sampled",
    required=[("types_exercised", 200), ("exhaustive_strings", 60000), ("rejected:bad-tag", 10), ("rejected:bad-variant", 10),
              ("rejected:bad-utf8", 10), ("rejected:zero-nonzero", 10), ("rejected:nanos", 1), ("rejected:non-canonical-compact", 10),
              ("rejected:over-wide-compact", 10), ("rejected:too-many-bits", 10), ("rejected:eof", 10), ("accepted", 1000)],
    stages=lambda tier: [native(), native(runtime="release", name="release", slow=2)] + ([
        asan(slow=8), miri(shards=8, slow=4000),
    ] if tier == "thorough" else []),
)

PROPS["C04"] = dict(
    level="exploration",
    rule="compact integers of width 8/16/32/64/128: all u8/u16 values, u32 values (stride 7 quick, ALL 2^32 thorough), class boundaries +-4096, "
         "values with at most two non-zero byte lanes, random values; byte strings: every (first byte x top byte x fill x cut length), all 2-byte "
         "strings, four-byte mode payloads (stride 7 / ALL 2^30) and 4-byte big-integer payloads (stride 13 / ALL 2^32), random / canonical+suffix / "
         "truncated strings, each judged by all five decoders; every enumerated case is distinct by construction and counted as such, random cases "
         "through a hash set; all are non-trivial (each compares real against the arithmetic model)",
    assumptions=["the arithmetic model compact_encode/compact_decode in harness/monitor/src/model.rs is the definition quoted in the property"],
    exhaustive_note="quick: all u8/u16 values, all byte strings of length <= 2, the full (tag x top byte x fill x length) grid. thorough additionally: "
                    "all 2^32 u32 values, all 2^30 four-byte-mode payloads for the 16/32-bit decoders, all 2^32 five-byte big-integer strings for the "
                    "32-bit decoder (counters *_exhaustive)",
    required=[("values_u16_exhaustive", 65536), ("strings_len2_exhaustive", 65536), ("strings_tag_top_len", 100000), ("values_boundary", 1000)],
    stages=lambda tier: [native(cpu=3000)],
)

PROPS["C07"] = dict(
    level="exploration",
    rule="(1) generated values of every universe type through encode / encode_to(Vec) / encode_to(dyn Output spy) / encode_to(short-writing io::Write) / "
         "using_encoded / encoded_size; (2) twelve primitive element types x lengths 0..40 and around 1x,2x,3x 16 KiB/size x {Vec, slice, wrapped VecDeque, "
         "arrays 0/1/32/33} against an element-wise twin, bytes and decode outcomes on valid/truncated/flipped/extended strings; non-trivial = encoding "
         "of at least 2 bytes; distinct = hash set of (type or element type, bytes)",
    assumptions=COMMON_ASSUMPTIONS + ["which path ran is read off the Output chunk trace / Input read trace: bulk = few large requests, element-wise = at least one request per element"],
    required=[("types_exercised", 200), ("prims_with_bulk_write_and_read_observed", 12), ("array_cases", 100)],
    stages=lambda tier: [native(), miri(shards=12, slow=150 if tier == "quick" else 20, args=["--mode", "bulk-only"])] + ([
        asan(), valgrind(slow=40),
        miri(runtime="miri-s390x", name="miri-s390x", shards=12, slow=1500, args=["--mode", "bulk-only"]),
    ] if tier == "thorough" else []),
)

PROPS["C08"] = dict(
    level="exploration",
    rule="byte strings (valid, 4 mutations, truncation, 2 random) per decodable type, decoded from the plain slice (reference) and from 5 base inputs "
         "(spy with known length, unknown length, IoReader<Cursor>, IoReader over a 1..9-byte short reader with Interrupted errors, &[u8]) under the "
         "empty wrapper word plus 3 random words over {CountedInput, depth-limit(MAX), mem-limit(MAX)}* of length <= 3, and from decode_from_bytes; "
         "non-trivial = non-empty string; distinct = hash set of (type, bytes)",
    assumptions=COMMON_ASSUMPTIONS + ["only success/failure, value and bytes consumed on success are compared; error texts and consumption on failure are not"],
    required=[("types_exercised", 200), ("distinct_stacks_seen", 150), ("zero_copy_observed", 50), ("accepted", 1000), ("rejected", 1000)],
    stages=lambda tier: [native()] + ([miri(shards=8, slow=2000), asan(slow=6)] if tier == "thorough" else []),
)

PROPS["C10"] = dict(
    level="fault_enumeration",
    rule="for each of ~65 containers over an instrumented element type (arrays, Box/Rc/Arc, growing collections, tuples, derived struct/enum, "
         "repr(transparent) newtypes, zero-sized elements, nested two deep) and several all-success inputs: EVERY element index x {malformed, panic}, "
         "EVERY cut point (input exhausted), EVERY input request x {error, panic}, EVERY announced allocation as the one that trips the memory limit, "
         "EVERY depth limit 0..=max; after each case the construction/drop ledger must balance. Non-trivial = at least one element had been "
         "constructed when the fault hit; distinct = hash set of (type, input bytes, fault)",
    assumptions=["the ledger sees instances of the instrumented element only; raw allocations made by the crate itself are watched by Miri, "
                 "LeakSanitizer / AddressSanitizer (quick and thorough) and valgrind (thorough)"],
    exhaustive_note="the fault grid per (container, all-success input) is enumerated completely; containers and inputs are a finite chosen list",
    required=[("types_exercised", 55), ("fault_after_construction:malformed-element", 100), ("fault_after_construction:panic-in-element", 100),
              ("fault_after_construction:exhausted", 100), ("fault_after_construction:panic-in-input", 100), ("fault_after_construction:mem-limit", 20),
              ("fault_after_construction:depth-limit", 5), ("success_runs", 100)],
    stages=lambda tier: [native(), miri(shards=16, slow=60 if tier == "quick" else 10), asan(slow=1)] + ([valgrind(slow=10)] if tier == "thorough" else []),
)

PROPS["C14"] = dict(
    level="exploration",
    rule="(1) every strict prefix (all cut points up to 512 bytes, sampled + structure boundaries beyond) of real encodings, through a slice and through "
         "IoReader over a short reader; (2) concatenations of 2..50 values of mixed types decoded value by value from one input (known length, unknown "
         "length, IoReader); (3) decode_all / decode_all_with_depth_limit(MAX) against decode + 'no input left' on valid, mutated, truncated and random "
         "strings; non-trivial = encoding / concatenation of at least 2 bytes; distinct = hash set of (type, bytes)",
    assumptions=COMMON_ASSUMPTIONS,
    required=[("types_exercised", 200), ("prefixes", 10000), ("concatenations", 100), ("consume_all_accepted", 100), ("consume_all_rejected_trailing", 100)],
    stages=lambda tier: [native()],
)

PROPS["C18"] = dict(
    level="exploration",
    rule="(1) DecodeLength::len on the real encoding of every generated value of the collection types and of tuples led by one (capability probed at "
         "compile time), plus count-only encodings through all four compact modes up to 2^32-1; (2) skip vs decode on valid, mutated, truncated and "
         "random strings of every decodable type, comparing success and input position; non-trivial = non-empty input; distinct = hash set of (type, bytes)",
    assumptions=COMMON_ASSUMPTIONS,
    required=[("types_exercised", 200), ("len_peeks", 1000), ("len_peeks:mode2", 10), ("len_peeks_count_only", 50), ("skip_on_accepted", 1000), ("skip_on_rejected", 1000)],
    stages=lambda tier: [native()],
)

PROPS["C19"] = dict(
    level="exploration",
    rule="decodes of valid, mutated, truncated and random strings of every decodable type through CountedInput over a spy input, (a) plain, (b) with an "
         "injected inner failure at request 0..5, (c) started near u64::MAX through the guarded hook; count() is compared with the spy's delivered "
         "bytes after EVERY request (step checker above the counter) and at the end; non-trivial = non-empty input; distinct = hash set of (type, bytes, variant)",
    assumptions=COMMON_ASSUMPTIONS + ["saturation is only reachable through the hook CountedInput::verif_with_count (cfg psc_verif)"],
    required=[("types_exercised", 200), ("requests_checked", 100000), ("after_success", 1000), ("after_failure", 1000), ("cases_with_failed_reads", 1000),
              ("saturated_cases", 1000), ("hook_available", 1)],
    stages=lambda tier: [native()],
)

PROPS["C09"] = dict(
    level="exploration",
    rule="per container type: generated values, and for each count-prefix position (up to 5) hostile twins that differ only in the claimed count "
         "(2^31 vs 2^32-1; 2^28 vs 2^29-1 for bit sequences; 2^14 vs 2^18 where elements may encode to nothing) x payloads {none, original tail, "
         "16-64 KiB of repeated plausible elements} x inputs {slice, unknown length, decode_from_bytes}; each decode is bracketed by the counting "
         "allocator (peak live bytes, largest single request). Non-trivial = hostile input whose claimed count exceeds what the payload can deliver; "
         "distinct = hash set of (type, input bytes, input kind)",
    assumptions=["oracle A (count independence): peak and largest request for the larger claimed count may exceed those for the smaller by at most 4 KiB",
                 "oracle B (absolute): peak <= 8*alpha*delivered + levels*80 KiB + 8*size_of(T) + 8 KiB with alpha = max over container levels of "
                 "element memory / minimal element encoding; kept because the honest+hostile corpus stays below 25% of it (worst ratio in the evidence)",
                 "the counting allocator sees every heap request of the process; each shard is single-threaded"],
    required=[("types_exercised", 100), ("hostile_pairs", 5000), ("hostile_rejected", 3000), ("via:Unknown", 1000), ("via:Shared", 1000),
              ("hostile:bits", 100), ("hostile:str", 100), ("calibration_runs", 1)],
    stages=lambda tier: [native(), native(runtime="release", name="release", slow=2)],
)

PROPS["C11"] = dict(
    level="exploration",
    rule="values of every decodable universe type (nesting Vec/Box/Rc/Arc/maps/sets/lists/deques/heaps/options/tuples, recursive derived types) x EVERY "
         "limit 0..=depth_hi+2 through the native entry points and through wrapper layers between limiter and decoder, observed by a spy; hostile "
         "strings x limits {0,1,2,3,MAX}; inputs nested 10^3..10^6 levels on a 2 MiB stack (release build). Non-trivial = value with container "
         "nesting depth >= 2 (or a deep-nesting case); distinct = hash set of (type, bytes)",
    assumptions=COMMON_ASSUMPTIONS + [
        "depth_hi = longest chain of nested heap containers in the value; depth_lo = (longest chain of nested non-empty containers) - 1: the property "
        "is read as 'element decoders are entered through more than L container levels', the reading under which the crate's own documented test "
        "(4-level Vec<Vec<Vec<Vec<u8>>>> decodes with limit 3) satisfies it; the verdict uses only depth_lo <= threshold <= depth_hi",
        "stack safety is observed on a fixed 2 MiB stack in the optimised build; a stack overflow kills the child and is attributed to the last case"],
    required=[("types_exercised", 200), ("limit_sweeps", 50000), ("limited_ok", 10000), ("limited_err", 5000), ("deep_cases", 40), ("deep_rejected", 30), ("deep_ok", 4)],
    stages=lambda tier: [native(), native(runtime="release", name="release-deep", shards=6, args=["--mode", "deep"], mem_gb=4)],
)

PROPS["C12"] = dict(
    level="fault_enumeration",
    rule="values of every DecodeWithMemTracking universe type (capability probed at compile time): tracked usage U measured through "
         "MemTrackingInput(MAX) over a spy (hook conservation), then EVERY limit 0..=U+1 when U <= 4096 (each limit makes a different allocation the "
         "failing one) and {0,1,U/2,U-1,U,U+1,2U,MAX} otherwise through decode_with_mem_limit, plus binding limits under/above other wrappers and "
         "hostile strings x limits {0,1,64,4096,MAX}; U compared with the logical heap payload computed from the value by the bridge. "
         "Non-trivial = value with U > 0; distinct = hash set of (type, bytes)",
    assumptions=COMMON_ASSUMPTIONS + [
        "payload = len*size_of(elem) for Vec/VecDeque/BinaryHeap/LinkedList/Cow<[T]>, size_of(T) for Box/Rc/Arc, byte length for String/Bytes, store bytes "
        "for bit sequences, summed over nesting (exact part) + len*size_of((K,V)) for tree maps/sets (tree part); demanded: U >= exact + tree/2, and U = 0 "
        "when the value owns no heap object"],
    exhaustive_note="for every value with U <= 4096 the limit sweep 0..=U+1 is complete",
    required=[("types_exercised", 180), ("limit_sweeps", 100000), ("values_with_positive_usage", 5000), ("values_with_zero_usage", 1000),
              ("stacked_limits", 1000), ("saturation_cases", 1), ("hostile_limited", 10000)],
    stages=lambda tier: [native()],
)

"""Generated-program stages (C05, C13, C17): generate derive programs, compile them against /repo,
run the monitor suite inside them (C05, C13) or judge rustc's diagnostics (C17)."""
import json, os, shutil, signal, subprocess, sys, time

ROOT = os.path.dirname(os.path.dirname(os.path.abspath(__file__)))
sys.path.insert(0, os.path.join(ROOT, "derivelab"))
import gen  # noqa: E402
import gen17  # noqa: E402

OUT = os.path.join(ROOT, "derivelab", "out")


def target_dir(chk):
    return os.path.join(chk.HARNESS, "target-lab")


def write_crate(chk, name, src):
    d = os.path.join(OUT, name)
    os.makedirs(os.path.join(d, "src"), exist_ok=True)
    with open(os.path.join(d, "src", "main.rs"), "w") as f:
        f.write(src)
    with open(os.path.join(d, "Cargo.toml"), "w") as f:
        f.write(gen.CARGO.format(name=name, monitor=os.path.join(chk.HARNESS, "monitor"), repo=chk.REPO))
    shutil.copy(os.path.join(chk.HARNESS, "Cargo.lock"), os.path.join(d, "Cargo.lock"))
    return d


def cargo(chk, d, sub, extra=None, timeout=3000):
    env = chk.env_base()
    env["RUSTFLAGS"] = chk.HOOK_CFG
    cmd = ["cargo", sub, "--offline", "--message-format=json", "--target-dir", target_dir(chk)] + (extra or [])
    p = subprocess.run(cmd, cwd=d, env=env, stdout=subprocess.PIPE, stderr=subprocess.PIPE, text=True, timeout=timeout)
    diags = []
    for line in p.stdout.splitlines():
        if not line.startswith("{"):
            continue
        try:
            m = json.loads(line)
        except ValueError:
            continue
        if m.get("reason") == "compiler-message" and m["message"].get("level") == "error":
            diags.append(m)
    return p.returncode, diags, p.stderr[-3000:]


def span_lines(msg, fname="main.rs"):
    """All (line_start, line_end) pairs in `fname` reachable from the diagnostic through spans,
    their macro expansion chains, and child diagnostics."""
    out = []

    def walk_span(s):
        if s is None:
            return
        if s.get("file_name", "").endswith(fname):
            out.append((s["line_start"], s["line_end"]))
        exp = s.get("expansion")
        if exp:
            walk_span(exp.get("span"))
            walk_span(exp.get("def_site_span"))

    def walk(m):
        for s in m.get("spans", []):
            walk_span(s)
        for c in m.get("children", []):
            walk(c)

    walk(msg)
    return out


def attribute(diags, ranges, crate_name):
    """Map each error to the definitions whose line range it touches. ranges: {key: (lo, hi)}."""
    hit = {k: [] for k in ranges}
    unattributed = []
    for m in diags:
        if m.get("target", {}).get("name") != crate_name and m.get("package_id", "").find(crate_name) < 0:
            # an error in a dependency: not about the generated definitions
            unattributed.append(m["message"]["message"])
            continue
        lines = span_lines(m["message"])
        found = False
        for k, (lo, hi) in ranges.items():
            if any(a <= hi and b >= lo for (a, b) in lines):
                hit[k].append(m["message"]["message"])
                found = True
        if not found:
            unattributed.append(m["message"]["message"])
    return hit, unattributed


def line_ranges(src, defs_texts):
    """line range (1-based) of each definition text inside src, in order of appearance."""
    ranges = []
    pos = 0
    for t in defs_texts:
        i = src.index(t, pos)
        lo = src.count("\n", 0, i) + 1
        hi = lo + t.count("\n")
        ranges.append((lo, hi))
        pos = i + len(t)
    return ranges


def run_suite_binary(chk, pid, name, prop, seed, values, total, stage, cpu=600):
    binary = os.path.join(target_dir(chk), "debug", name)
    outp = os.path.join(chk.WORK, pid, f"{name}.{prop}.json")
    os.makedirs(os.path.dirname(outp), exist_ok=True)
    args = ["--prop", prop, "--seed", str(seed), "--values", str(values)]
    r = chk.run_child([binary], chk.env_base(), args, outp, cpu, 8, cpu * 2 + 300)
    if r["rc"] == 0 and r["report"] is not None:
        chk.merge(total, r["report"], stage)
        return
    how = "wall-clock watchdog fired" if r["timed_out"] else chk.describe_rc(r["rc"])
    if r["timed_out"]:
        total["inconclusive"].append(f"{stage}: {how}")
        return
    # attribute the abnormal end: re-run announcing each case
    trace = outp + ".trace"
    if os.path.exists(trace):
        os.remove(trace)
    r2 = chk.run_child([binary], chk.env_base(), args, outp + ".rerun", cpu, 8, cpu * 2 + 300, {"VERIF_TRACE_CASES": trace})
    case = open(trace, errors="replace").read()[:4000] if os.path.exists(trace) else None
    if r2["rc"] == 0 and r2["report"] is not None:
        total["inconclusive"].append(f"{stage}: {how}, not reproduced on re-run")
        chk.merge(total, r2["report"], stage)
        return
    kind = chk.classify_tool_report("native", r["tail"], r["rc"]) or ("cpu-limit" if r["rc"] == -signal.SIGXCPU else "crash")
    # signature names the operation and the kind of type, not the generated name
    what = "unknown"
    if case:
        what = " ".join(case.split()[2:5]) if "encode skipped variant" in case else case.split()[2] if len(case.split()) > 2 else "unknown"
    sig = f"{kind}:encode-skipped-variant" if case and "encode skipped variant" in case else f"{kind}:{stage}"
    total["violations"].append(dict(sig=sig, msg=f"{stage}: generated program died ({how}; {kind}) during: {case}; tail: {r['tail'][-600:]}",
                                    replay=dict(property=pid, crate=os.path.join(OUT, name), last_case=case, how=how, what=what), runtime=stage))
    total["violations_total"] += 1


def build_valid_crate(chk, pid, name, src, defs, total, stage):
    """Build a crate of generated VALID definitions. A definition that does not compile is a
    violation (valid input must compile) once confirmed on its own; anything else is inconclusive."""
    d = write_crate(chk, name, src)
    t0 = time.time()
    rc, diags, err = cargo(chk, d, "build")
    chk.log(f"{pid} {stage}: built {name} ({len(defs)} definitions) in {time.time()-t0:.0f}s rc={rc}")
    if rc == 0:
        return True
    texts = [gen.emit_def(x) for x in defs]
    try:
        ranges = dict(enumerate(line_ranges(src, texts)))
    except ValueError:
        ranges = {}
    hit, un = attribute(diags, ranges, name)
    blamed = [k for k, v in hit.items() if v]
    if not blamed:
        total["inconclusive"].append(f"{stage}: generated crate {name} does not build and no definition is implicated: {(un or [err])[0][:500]}")
        return False
    for k in blamed[:5]:
        total["violations"].append(dict(sig="valid-program-rejected", msg=f"{stage}: a definition over the supported attribute grammar does not compile: {texts[k]} :: {hit[k][0][:400]}",
                                        replay=dict(property=pid, definition=texts[k], errors=hit[k][:3]), runtime=stage))
        total["violations_total"] += 1
    return False


def c05_custom(pid, tier, seed, total, chk):
    """C05: generated valid programs x values, monitored by the suite compiled into them."""
    crates = 1 if tier == "quick" else 10
    ndefs = 140 if tier == "quick" else 260
    values = 400 if tier == "quick" else 6000
    programs = 0
    for k in range(crates):
        g = gen.Gen(seed * 1000 + k)
        defs = g.program(ndefs)
        src, ntypes = gen.emit_suite_crate(defs)
        name = f"c05_{k}"
        programs += len(defs)
        if build_valid_crate(chk, pid, name, src, defs, total, f"gen-{k}"):
            run_suite_binary(chk, pid, name, "C05", seed, values, total, f"gen-{k}")
    total["counters"]["generated_definitions"] = programs
    total.setdefault("extra", {})["programs"] = programs
    # the static universe's hand-written derived types run the same monitors natively
    chk.run_stage(pid, dict(runtime="native", name="static-derived", prop="C05"), tier, seed, total)


def c13_generated(pid, tier, seed, total, chk):
    crates = 1 if tier == "quick" else 4
    ndefs = 140 if tier == "quick" else 260
    values = 500 if tier == "quick" else 4000
    programs = 0
    for k in range(crates):
        g = gen.Gen(seed * 1000 + 500 + k)
        defs = g.program(ndefs)
        src, _ = gen.emit_suite_crate(defs)
        name = f"c13_{k}"
        programs += len(defs)
        if build_valid_crate(chk, pid, name, src, defs, total, f"gen-{k}"):
            run_suite_binary(chk, pid, name, "C13", seed, values, total, f"gen-{k}")
    total["counters"]["generated_definitions"] = programs


def c13_custom(pid, tier, seed, total, chk):
    chk.run_stage(pid, dict(runtime="native"), tier, seed, total)
    c13_generated(pid, tier, seed, total, chk)


def c17_custom(pid, tier, seed, total, chk):
    gen17.run(pid, tier, seed, total, chk, sys.modules[__name__])

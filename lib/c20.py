"""C20: build the probe once per feature configuration, replay the corpus, compare digest logs offline."""
import os, subprocess, time

BASES = {
    "default(std+chain-error)": ["std"],
    "no-default-features": [],
    "no_std+chain-error": ["chain-error"],
}
OPTIONAL = ["bit-vec", "bytes", "generic-array", "max-encoded-len", "derive"]


def configs(tier):
    out = []
    for bname, bfeat in BASES.items():
        sets = [("none", []), ("all", OPTIONAL)]
        if tier == "thorough":
            sets += [(o, [o]) for o in OPTIONAL]
        for sname, sfeat in sets:
            out.append((f"{bname} + {sname}", bfeat + sfeat))
    return out


def c20_custom(pid, tier, seed, total, chk):
    work = os.path.join(chk.WORK, pid)
    os.makedirs(work, exist_ok=True)
    tdir = os.path.join(chk.HARNESS, "target-cfg")
    values = 40 if tier == "quick" else 400
    logs = {}
    for name, feats in configs(tier):
        env = chk.env_base()
        env["RUSTFLAGS"] = chk.HOOK_CFG
        cmd = ["cargo", "build", "-q", "-p", "cfgprobe", "--profile", "checked", "--target-dir", tdir, "--no-default-features"]
        if feats:
            cmd += ["--features", ",".join(feats)]
        t0 = time.time()
        p = subprocess.run(cmd, cwd=chk.HARNESS, env=env, stdout=subprocess.PIPE, stderr=subprocess.STDOUT, text=True)
        if p.returncode != 0:
            # the probe uses only public API available in every configuration: a configuration
            # that does not build is itself a finding about supported configurations, but not one
            # this monitor can attribute -> inconclusive
            total["inconclusive"].append(f"configuration [{name}] does not build: {p.stdout[-600:]}")
            continue
        binary = os.path.join(tdir, "checked", "cfgprobe")
        outp = os.path.join(work, "log_" + "".join(c if c.isalnum() else "_" for c in name) + ".txt")
        r = subprocess.run([binary, "--seed", str(seed), "--values", str(values), "--out", outp], cwd=chk.HARNESS, env=chk.env_base(),
                           stdout=subprocess.PIPE, stderr=subprocess.STDOUT, text=True, timeout=1800)
        chk.log(f"{pid} configuration [{name}]: built+ran in {time.time()-t0:.0f}s rc={r.returncode}")
        if r.returncode != 0:
            total["violations"].append(dict(sig=f"probe-crashed:{name}", msg=f"the corpus replay died in configuration [{name}]: rc={r.returncode} {r.stdout[-800:]}",
                                            replay=dict(property=pid, configuration=name, features=feats), runtime="cfgprobe"))
            total["violations_total"] += 1
            continue
        cases = {}
        for line in open(outp):
            parts = line.rstrip("\n").split("\t")
            if len(parts) == 4:
                cases[(parts[0], parts[1], parts[2])] = parts[3]
        logs[name] = cases
        total["per_runtime"][name] = dict(evaluations=len(cases), shards=1, reports=0)
    # offline checker: join on case id, compare every case present in >= 2 logs
    allkeys = {}
    for name, cases in logs.items():
        for k, v in cases.items():
            allkeys.setdefault(k, {})[name] = v
    compared = 0
    mism = 0
    reported = set()
    for k, per in allkeys.items():
        if len(per) < 2:
            continue
        compared += 1
        if len(set(per.values())) > 1:
            mism += 1
            kind = "encode" if k[1] == "enc" else "decode"
            sig = f"config-divergence:{kind}:{k[0]}"
            if sig not in reported and len(reported) < 20:
                reported.add(sig)
                groups = {}
                for n, v in per.items():
                    groups.setdefault(v, []).append(n)
                total["violations"].append(dict(sig=sig, msg=f"case {k} has different {kind} digests across feature configurations: {groups}",
                                                replay=dict(property=pid, case=list(k), digests=per, seed=seed), runtime="cfgprobe"))
            total["violations_total"] += 1
    total["evaluations"] += sum(len(c) for c in logs.values())
    total["distinct_nontrivial"] += compared
    c = total["counters"]
    c["configurations_built"] = len(logs)
    c["cases_compared_across_configurations"] = compared
    c["cases_with_divergence"] = mism
    c["cases_present_in_all_configurations"] = sum(1 for per in allkeys.values() if len(per) == len(logs))
    some = [k for k, per in allkeys.items() if len(per) >= 2][:6]
    for k in some:
        total["samples"].append(dict(case=list(k), digest=list(allkeys[k].values())[0], configurations=len(allkeys[k])))
    total.setdefault("extra", {})["configurations"] = [dict(name=n, cases=len(v)) for n, v in logs.items()]

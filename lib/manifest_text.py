"""Human-written level texts for MANIFEST.json."""
PENDING = {}
TEXT = {
 "C01": dict(
  technique="runtime monitoring: reference-model oracle (independent SCALE encoder) over generated values; Miri cross-interpretation for big-endian / 32-bit",
  text="Every generated value of ~290 concrete types is encoded by the real crate and compared byte for byte with an independent specification encoder; "
       "borrowed/unsized forms and bit slices at every head offset included. Exploration is the honest level: the value space is infinite, so the check "
       "reports 'held on N observed values', with boundary-biased generation aimed at mode and chunk edges.",
  note="Trusts the reference model and the per-type bridge; heaps compared as multisets; big-endian and 32-bit behaviour only through Miri shards (thorough)."),
 "C02": dict(
  technique="runtime monitoring: round-trip oracle with spy Input (delivered bytes, untouched suffix); Miri / ASan / valgrind shards on the unsafe decode paths",
  text="decode(encode(v)) is observed through a native slice and a spy input that counts delivered bytes and proves the suffix was never requested; "
       "values straddle the 16 KiB preallocation window; the unsafe bulk/array/Box paths additionally run under Miri (quick) and ASan+valgrind (thorough).",
  note="Equality is the bridge's value equality (floats by bits, heaps as multisets, skipped fields defaulted)."),
 "C03": dict(
  technique="runtime monitoring: differential against an independent SCALE decoder on hostile byte strings (generated, mutated, and coverage-guided libFuzzer inputs); exhaustive short strings; ASan; process-level crash/CPU-limit observation",
  text="Accept/reject, value and consumed length of the real decoder are compared with a specification decoder on valid, mutated, count-tampered, "
       "near-valid and random byte strings for every decodable type, and on ALL strings up to 2/3 bytes for 37 small-alphabet types; panics are caught, "
       "aborts and CPU-limit hits are attributed to the last case. A coverage-guided libFuzzer stage (16 forks, ASan build) drives the same differential oracle over all universe types, with a 10 s per-input timeout; its crashes are replayed natively before they count. Totality on unseen inputs is not claimed.",
  note="Non-termination is restated as a CPU budget per shard; inputs needing >10^6 model steps (giant counts over empty-encoding elements) are skipped and counted."),
 "C04": dict(
  technique="runtime monitoring: arithmetic reference model over exhaustively enumerated values and byte strings (8/16/32 bit) plus structured and random cases (64/128 bit)",
  text="Every compact operation (encode, compact_len, using_encoded, encode_to, encoded_size, decode) is executed and compared with a 30-line arithmetic model: "
       "exhaustively for 8/16-bit values and all 2-byte strings in quick, for ALL 2^32 u32 values and all strings the 16/32-bit decoders can distinguish in thorough; "
       "64/128-bit widths on boundaries, two-lane values, the full tag x top-byte x length grid and millions of random cases. Still exploration for 64/128 bit.",
  note="The model is the property's own definition; exhaustive sub-spaces are listed in the evidence (counters *_exhaustive)."),
 "C07": dict(
  technique="runtime monitoring: differential between encoding entry points and between bulk and element-wise twin containers, with Output/Input chunk traces proving which path ran; Miri/ASan/valgrind on the transmute and set_len paths",
  text="For every universe value the five entry points must describe one byte string; for the twelve primitives the bulk-optimised slice/Vec/VecDeque/array paths are "
       "compared (bytes and decode outcomes on hostile strings) with an element-wise twin type, and the run is inconclusive unless a bulk and an element-wise path were "
       "actually observed for all twelve. The unsafe paths also run under Miri (quick) and ASan/valgrind/big-endian Miri (thorough).",
  note="Twin<P> forwards to P with TYPE_INFO = Unknown; path detection is by request sizes at the public Output/Input boundary."),
 "C08": dict(
  technique="runtime monitoring: differential against the slice run across input stacks built from the real wrappers (erased with a forwarding shim); coverage-guided libFuzzer inputs judged by the same per-input oracle",
  text="Each byte string is decoded from the slice and from input stacks built out of the crate's own IoReader, CountedInput, depth-limit and mem-limit wrappers (all 40 "
       "wrapper words of length <= 3 appear over a run), an unknown-length input, a short-chunk reader and decode_from_bytes; accept/reject, value and consumed bytes must agree. "
       "The zero-copy Bytes path is observed directly (decoded buffer points into the source).",
  note="Wrappers are composed through a type-erasing Input shim that forwards all six methods; the private depth tracker is inserted through decode_with_depth_limit."),
 "C10": dict(
  technique="runtime monitoring with fault injection: exhaustive fault grid over a construction/drop ledger; the same executions under Miri, AddressSanitizer+LeakSanitizer and valgrind",
  text="For every container and all-success input the full grid of failure positions and kinds is executed (element malformed/panicking at each index, input exhausted at each "
       "cut, input failing/panicking at each request, each announced allocation tripping the memory limit, each depth limit); the ledger must balance after each case and "
       "the sanitizers must stay silent. Fault enumeration is the right level: the fault space per input is finite and fully enumerated, the inputs are chosen.",
  note="Ledger keeps ids, not addresses (does not hide leaks from LSan); leaks of the crate's own raw allocations are visible only to Miri/LSan/valgrind shards."),
 "C14": dict(
  technique="runtime monitoring: direct oracle on prefixes, concatenations and consume-all entry points over generated values and hostile strings; coverage-guided libFuzzer inputs judged by the same per-input oracle",
  text="All strict prefixes of real encodings must fail (slice and IoReader inputs), concatenations of mixed-type encodings must decode value by value leaving nothing, and "
       "decode_all / decode_all_with_depth_limit(MAX) must equal 'decode succeeded and input empty' on arbitrary strings.",
  note="Prefix sampling beyond 512 bytes; types with possibly-empty element encodings are left out of concatenations (their decode is still self-delimiting, covered in (1))."),
 "C18": dict(
  technique="runtime monitoring: direct oracle for DecodeLength and differential skip vs decode with spy input positions; coverage-guided libFuzzer inputs judged by the same per-input oracle",
  text="len() on real encodings is compared with the logical length for every type that offers it (found by a compile-time probe, so new impls are picked up) through all "
       "count widths, and skip is compared with decode (success and position) on valid and hostile strings of every decodable type.",
  note="Counts >= 2^30 only through zero-sized elements."),
 "C19": dict(
  technique="runtime monitoring: online step checker above CountedInput compared with an independent spy below it; saturation via guarded hook; coverage-guided libFuzzer inputs judged by the same per-input oracle",
  text="A checker layered above the counting input recomputes the expected count from the outcomes of the requests it forwards and compares after every single request; "
       "the spy below reports what was really delivered. Failures are injected in the inner input, and the counter is started near u64::MAX through the hook to observe saturation.",
  note="Hook: CountedInput::verif_with_count behind --cfg psc_verif."),
 "C09": dict(
  technique="runtime monitoring: counting global allocator bracketing each decode; metamorphic oracle (claimed-count independence) plus calibrated linear bound; known-finding file for the recorded defect",
  text="Heap requests during each decode are observed by a counting #[global_allocator]. Hostile twins differing only in a claimed count (2^31 vs 2^32-1) must show the same "
       "peak and largest request (4 KiB slack), over slice, unknown-length and shared-buffer inputs and at every nesting position; an absolute bound linear in the delivered "
       "bytes is checked as well. One genuine defect is recorded as a known finding (containers of elements with empty encodings).",
  note="Children are single-threaded; requests above 8 GiB are refused so that 'allocate by claimed count' ends in an attributable abort."),
 "C11": dict(
  technique="runtime monitoring: two-sided threshold oracle from a model-computed container depth, monotonicity and transparency sweeps over every limit, spy depth traces, deep-input survival on a small stack in a child process; coverage-guided libFuzzer inputs judged by the same per-input oracle",
  text="For each value every limit 0..=depth+2 is executed natively and through wrapper layers: results must equal the unlimited result or fail, be monotone, succeed from "
       "depth_hi on and fail below depth_lo; descend/ascend traces must balance. Million-level nestings of recursive types are decoded with small limits on a 2 MiB stack: "
       "the child must survive and report an error.",
  note="Reading of 'recurses through more than L levels' is the one under which the crate's own documented test holds (see assumptions in the evidence)."),
 "C12": dict(
  technique="runtime monitoring with fault injection: exhaustive limit sweep (every limit up to U+1) against the measured tracked usage, hook conservation via spy, payload lower bound from the bridge; coverage-guided libFuzzer inputs judged by the same per-input oracle",
  text="The limit is the injected fault: for every value with U <= 4096 each L in 0..=U+1 is executed (success iff L > U, result identical to unlimited decoding), larger "
       "values at boundary limits; U must equal the sum of announced allocations, be 0 for heap-free values and at least the logical heap payload (half of it for trees). "
       "Fault enumeration: per value the limit space is swept completely.",
  note="Payload computed from the decoded value by harness code (bridge heap()), sizes via size_of of the real element types."),
 "C05": dict(
  technique="runtime monitoring of generated programs: a program generator emits derive inputs plus a schema computed from the definition text; the compiled programs run reference-model monitors over themselves; child-process observation for non-termination / stack overflow",
  text="Hundreds of generated definitions over the supported attribute grammar are compiled against the tree and monitor themselves: skipped variants must encode to "
       "nothing (and return), values must encode to the concatenation the definition declares through every entry point and decode back with skipped fields defaulted, and "
       "hostile strings (including every leading/index byte) must be judged as the schema's decoder judges them. The hand-written derived types of the static universe run "
       "the same monitors. Programs and values are sampled, hence exploration.",
  note="Schema comes from the generator's AST (index = attribute > discriminant > position among non-skipped variants), never from the macros."),
 "C06": dict(
  technique="runtime monitoring over construction histories: fresh-build twin and reference encoder as oracles, layout signatures recorded to prove wrapped/offset/stale states were reached",
  text="Containers are driven through random construction histories and each reached state must encode exactly like a freshly built equal value and like the specification; "
       "the run is inconclusive unless wrapped ring buffers were seen for every element type. Bit sequences are additionally enumerated over every head offset and length 0..130 "
       "for all store/order combinations, and map/set insertion orders of up to 6 keys are enumerated completely.",
  note="BinaryHeap deliberately excluded (order is history dependent and not promised)."),
 "C13": dict(
  technique="runtime monitoring: direct oracle (encoded length vs declared maximum / constant / fixed size) with schema-chosen worst-case witnesses, over built-in impls (compile-time capability probe) and generated derive(MaxEncodedLen) programs",
  text="For every type that declares a bound the schema's longest value and many boundary-biased values are encoded and measured; constant-length and fixed-size claims are "
       "checked for equality. Declarations are discovered by a compile-time probe, so a type that newly claims ConstEncodedLen/MaxEncodedLen is tested without editing the harness. "
       "Generated definitions cover compact / encoded_as / skip fields, skipped variants and generics.",
  note="One genuine defect was found by this check and repaired (fix: commit 8a99b0c)."),
 "C15": dict(
  technique="runtime monitoring: history + executable model (plain Vec extended and re-encoded by the reference encoder) checked after every append",
  text="Random histories of append_or_new calls over 16 item types, both targets and five item forms are compared after every step with the re-encoded model; count-only "
       "sequences probe every prefix-width boundary and the 2^32 limit (including batches longer than 2^32), real payloads cross 64, 2^14 and (thorough) 2^30 with 1 GiB behind the prefix; "
       "inputs without a valid count must be rejected.",
  note="One genuine defect was found by this check and repaired (fix: commit 48fbdb8)."),
 "C16": dict(
  technique="runtime monitoring: differential A vs B for every declared family, with the declaration itself enforced by the checker's trait bound; static audit of declarations",
  text="For ~75 declared families a generated A-value and the B-value it stands for must encode to the same bytes, and the bytes must decode as B to that value. The generic "
       "checker requires A: EncodeLike<B>, so only declared pairs compile. Impl headers in the tree are counted and unknown ones surfaced as UNAUDITED.",
  note="Families the harness has no conversion for are not judged (listed in evidence)."),
 "C17": dict(
  technique="runtime monitoring of the derive macros inside rustc: generated programs, reference model of the index/attribute rules, rustc JSON diagnostics attributed through expansion chains; solo re-compilation of every disagreement",
  text="The monitored execution is the macro expansion and const evaluation in rustc. A model decides for each generated definition whether it is faulty; faulty ones must "
       "receive an error whose span chain lies inside them, fault-free twins and random valid enums must compile cleanly. Forced collisions cover every pair of index sources; "
       "thorough enumerates all small enums.",
  note="Message wording is never matched; rustc's co-reporting of several errors in one crate is not relied upon (solo re-check)."),
 "C20": dict(
  technique="runtime monitoring across builds: identical seeded corpus replayed by one probe built per feature configuration; offline checker over the recorded digest logs",
  text="Six (quick) / twenty-one (thorough) feature configurations of the crate are built and each replays the same corpus; encode digests and decode outcomes are joined on "
       "case id and must be identical wherever a case exists in two or more configurations. The no_std Output impl, the alloc re-exports and the field-less Error are thereby executed.",
  note="Only configurations that build are compared; a configuration that fails to build is inconclusive, not a verdict."),
}

"""Human-written level texts for MANIFEST.json."""
PENDING = {}
TEXT = {
 "C01": dict(
  technique="runtime monitoring: reference-model oracle (independent SCALE encoder) over generated values; Miri cross-interpretation for big-endian / 32-bit",
  text="Every generated value of ~290 concrete types is encoded by the real crate and compared byte for byte with an independent specification encoder; "
       "borrowed/unsized forms and bit slices at every head offset included. Exploration is the honest level: the value space is infinite, so the check "
       "reports 'held on N observed values', with boundary-biased generation aimed at mode and chunk edges.",
  note="Trusts the reference model and the per-type bridge; heaps compared as multisets; big-endian and 32-bit behaviour only through Miri shards (thorough)."),
 "C02": dict(
  technique="runtime monitoring: round-trip oracle with spy Input (delivered bytes, untouched suffix); Miri / ASan / valgrind shards on the unsafe decode paths",
  text="decode(encode(v)) is observed through a native slice and a spy input that counts delivered bytes and proves the suffix was never requested; "
       "values straddle the 16 KiB preallocation window; the unsafe bulk/array/Box paths additionally run under Miri (quick) and ASan+valgrind (thorough).",
  note="Equality is the bridge's value equality (floats by bits, heaps as multisets, skipped fields defaulted)."),
 "C03": dict(
  technique="runtime monitoring: differential against an independent SCALE decoder on hostile byte strings; exhaustive short strings; process-level crash/CPU-limit observation",
  text="Accept/reject, value and consumed length of the real decoder are compared with a specification decoder on valid, mutated, count-tampered, "
       "near-valid and random byte strings for every decodable type, and on ALL strings up to 2/3 bytes for 37 small-alphabet types; panics are caught, "
       "aborts and CPU-limit hits are attributed to the last case. Totality on unseen inputs is not claimed.",
  note="Non-termination is restated as a CPU budget per shard; inputs needing >10^6 model steps (giant counts over empty-encoding elements) are skipped and counted."),
 "C04": dict(
  technique="runtime monitoring: arithmetic reference model over exhaustively enumerated values and byte strings (8/16/32 bit) plus structured and random cases (64/128 bit)",
  text="Every compact operation (encode, compact_len, using_encoded, encode_to, encoded_size, decode) is executed and compared with a 30-line arithmetic model: "
       "exhaustively for 8/16-bit values and all 2-byte strings in quick, for ALL 2^32 u32 values and all strings the 16/32-bit decoders can distinguish in thorough; "
       "64/128-bit widths on boundaries, two-lane values, the full tag x top-byte x length grid and millions of random cases. Still exploration for 64/128 bit.",
  note="The model is the property's own definition; exhaustive sub-spaces are listed in the evidence (counters *_exhaustive)."),
 "C07": dict(
  technique="runtime monitoring: differential between encoding entry points and between bulk and element-wise twin containers, with Output/Input chunk traces proving which path ran; Miri/ASan/valgrind on the transmute and set_len paths",
  text="For every universe value the five entry points must describe one byte string; for the twelve primitives the bulk-optimised slice/Vec/VecDeque/array paths are "
       "compared (bytes and decode outcomes on hostile strings) with an element-wise twin type, and the run is inconclusive unless a bulk and an element-wise path were "
       "actually observed for all twelve. The unsafe paths also run under Miri (quick) and ASan/valgrind/big-endian Miri (thorough).",
  note="Twin<P> forwards to P with TYPE_INFO = Unknown; path detection is by request sizes at the public Output/Input boundary."),
 "C08": dict(
  technique="runtime monitoring: differential against the slice run across input stacks built from the real wrappers (erased with a forwarding shim)",
  text="Each byte string is decoded from the slice and from input stacks built out of the crate's own IoReader, CountedInput, depth-limit and mem-limit wrappers (all 40 "
       "wrapper words of length <= 3 appear over a run), an unknown-length input, a short-chunk reader and decode_from_bytes; accept/reject, value and consumed bytes must agree. "
       "The zero-copy Bytes path is observed directly (decoded buffer points into the source).",
  note="Wrappers are composed through a type-erasing Input shim that forwards all six methods; the private depth tracker is inserted through decode_with_depth_limit."),
 "C10": dict(
  technique="runtime monitoring with fault injection: exhaustive fault grid over a construction/drop ledger; the same executions under Miri, AddressSanitizer+LeakSanitizer and valgrind",
  text="For every container and all-success input the full grid of failure positions and kinds is executed (element malformed/panicking at each index, input exhausted at each "
       "cut, input failing/panicking at each request, each announced allocation tripping the memory limit, each depth limit); the ledger must balance after each case and "
       "the sanitizers must stay silent. Fault enumeration is the right level: the fault space per input is finite and fully enumerated, the inputs are chosen.",
  note="Ledger keeps ids, not addresses (does not hide leaks from LSan); leaks of the crate's own raw allocations are visible only to Miri/LSan/valgrind shards."),
 "C14": dict(
  technique="runtime monitoring: direct oracle on prefixes, concatenations and consume-all entry points over generated values and hostile strings",
  text="All strict prefixes of real encodings must fail (slice and IoReader inputs), concatenations of mixed-type encodings must decode value by value leaving nothing, and "
       "decode_all / decode_all_with_depth_limit(MAX) must equal 'decode succeeded and input empty' on arbitrary strings.",
  note="Prefix sampling beyond 512 bytes; types with possibly-empty element encodings are left out of concatenations (their decode is still self-delimiting, covered in (1))."),
 "C18": dict(
  technique="runtime monitoring: direct oracle for DecodeLength and differential skip vs decode with spy input positions",
  text="len() on real encodings is compared with the logical length for every type that offers it (found by a compile-time probe, so new impls are picked up) through all "
       "count widths, and skip is compared with decode (success and position) on valid and hostile strings of every decodable type.",
  note="Counts >= 2^30 only through zero-sized elements."),
 "C19": dict(
  technique="runtime monitoring: online step checker above CountedInput compared with an independent spy below it; saturation via guarded hook",
  text="A checker layered above the counting input recomputes the expected count from the outcomes of the requests it forwards and compares after every single request; "
       "the spy below reports what was really delivered. Failures are injected in the inner input, and the counter is started near u64::MAX through the hook to observe saturation.",
  note="Hook: CountedInput::verif_with_count behind --cfg psc_verif."),
 "C09": dict(
  technique="runtime monitoring: counting global allocator bracketing each decode; metamorphic oracle (claimed-count independence) plus calibrated linear bound; known-finding file for the recorded defect",
  text="Heap requests during each decode are observed by a counting #[global_allocator]. Hostile twins differing only in a claimed count (2^31 vs 2^32-1) must show the same "
       "peak and largest request (4 KiB slack), over slice, unknown-length and shared-buffer inputs and at every nesting position; an absolute bound linear in the delivered "
       "bytes is checked as well. One genuine defect is recorded as a known finding (containers of elements with empty encodings).",
  note="Children are single-threaded; requests above 8 GiB are refused so that 'allocate by claimed count' ends in an attributable abort."),
 "C11": dict(
  technique="runtime monitoring: two-sided threshold oracle from a model-computed container depth, monotonicity and transparency sweeps over every limit, spy depth traces, deep-input survival on a small stack in a child process",
  text="For each value every limit 0..=depth+2 is executed natively and through wrapper layers: results must equal the unlimited result or fail, be monotone, succeed from "
       "depth_hi on and fail below depth_lo; descend/ascend traces must balance. Million-level nestings of recursive types are decoded with small limits on a 2 MiB stack: "
       "the child must survive and report an error.",
  note="Reading of 'recurses through more than L levels' is the one under which the crate's own documented test holds (see assumptions in the evidence)."),
 "C12": dict(
  technique="runtime monitoring with fault injection: exhaustive limit sweep (every limit up to U+1) against the measured tracked usage, hook conservation via spy, payload lower bound from the bridge",
  text="The limit is the injected fault: for every value with U <= 4096 each L in 0..=U+1 is executed (success iff L > U, result identical to unlimited decoding), larger "
       "values at boundary limits; U must equal the sum of announced allocations, be 0 for heap-free values and at least the logical heap payload (half of it for trees). "
       "Fault enumeration: per value the limit space is swept completely.",
  note="Payload computed from the decoded value by harness code (bridge heap()), sizes via size_of of the real element types."),
}

"""Human-written level texts for MANIFEST.json."""
PENDING = {}
TEXT = {
 "C01": dict(
  technique="runtime monitoring: reference-model oracle (independent SCALE encoder) over generated values; Miri cross-interpretation for big-endian / 32-bit",
  text="Every generated value of ~290 concrete types is encoded by the real crate and compared byte for byte with an independent specification encoder; "
       "borrowed/unsized forms and bit slices at every head offset included. Exploration is the honest level: the value space is infinite, so the check "
       "reports 'held on N observed values', with boundary-biased generation aimed at mode and chunk edges.",
  note="Trusts the reference model and the per-type bridge; heaps compared as multisets; big-endian and 32-bit behaviour only through Miri shards (thorough)."),
 "C02": dict(
  technique="runtime monitoring: round-trip oracle with spy Input (delivered bytes, untouched suffix); Miri / ASan / valgrind shards on the unsafe decode paths",
  text="decode(encode(v)) is observed through a native slice and a spy input that counts delivered bytes and proves the suffix was never requested; "
       "values straddle the 16 KiB preallocation window; the unsafe bulk/array/Box paths additionally run under Miri (quick) and ASan+valgrind (thorough).",
  note="Equality is the bridge's value equality (floats by bits, heaps as multisets, skipped fields defaulted)."),
 "C03": dict(
  technique="runtime monitoring: differential against an independent SCALE decoder on hostile byte strings; exhaustive short strings; process-level crash/CPU-limit observation",
  text="Accept/reject, value and consumed length of the real decoder are compared with a specification decoder on valid, mutated, count-tampered, "
       "near-valid and random byte strings for every decodable type, and on ALL strings up to 2/3 bytes for 37 small-alphabet types; panics are caught, "
       "aborts and CPU-limit hits are attributed to the last case. Totality on unseen inputs is not claimed.",
  note="Non-termination is restated as a CPU budget per shard; inputs needing >10^6 model steps (giant counts over empty-encoding elements) are skipped and counted."),
}
